"""C12 — $variables resolve lexically, backwards only, and never inside single quotes."""
import os

from common import freephil, enc, dec, call_j, word_j, classify_runtime

LEVEL = "proof"
MODULE = "Phil.Props.C12"
LEVEL_TEXT = "Lean theorems about the substitution model: the operational resolution equals a fuel-free denotational specification (nearest earlier definition, enclosing scopes outward, dotted and root-anchored names, last earlier match wins) for every environment, position and both modes on every parser output (resolveAt_eq_denote_parsed, parse_docIds, lexicalGet_eq_nearestEarlier); corollaries: later objects irrelevant, environment irrelevant when an earlier definition exists, single quotes and '$'-free words untouched, one unquoted variable takes the words / any mixture is one double-quoted word, resolution never runs out of fuel. Tied to /repo by a correspondence run of resolve_variables of every definition of generated documents x environments (one object per line and several per line, one-line scopes); the oracle reads 'earlier' from document positions of the generator's tree (not from primary ids) and evaluates the clauses on the implementation."
LEVEL_NOTE = "os.environ is a parameter of the model. $a.b reads as variable a followed by '.b', as coded. Known edges on the unchanged tree (see DESIGN §7): triple-single-quoted text is substituted by the code and by the model (finding D70; the oracle reads ''' as single quotes and tags its failures on such definitions), disabled definitions serve as variable sources."
TECHNIQUE = 'Lean 4 refinement of operational resolution to a denotational specification + differential correspondence + position-based reference oracle'
RULE = ("documents of definitions and nested scopes (depth <= 3) whose words mix literals, $x, $(x), $(a.b), $(.a.b), \\$, all "
        "quote styles, references to scopes, later definitions, themselves and undefined names x environments that do or do not "
        "define the names x layouts (one object per line; statements sharing a physical line through ';', one-line scopes, "
        "objects right after a closing brace; brace on its own line; blank / comment lines); 'earlier' in the oracle is the "
        "position in the text as written by the generator, not primary_id; non-trivial = the definition contains a '$'; "
        "distinct = (document, env)")
ASSUMPTIONS = ["documents are variable-substituted through definition.resolve_variables (what fetch calls)"]
NAMES = ["a", "b", "c", "s", "t", "x1", "s_b", "t_b", "ab", "sa", "st"]   # incl. names that extend scope names
ENVN = ["a", "b", "c", "HOME_X", "zz", "x1", "s", "a.b", "s_b", "t_b", "ab", "st"]


def gen_word(rng):
    k = rng.random()
    refs = NAMES + ["zz", "HOME_X"]
    r = rng.choice(refs)
    dotted = rng.choice(["s.a", "s.t.b", ".a", ".s.a", "t.c", ".zz", "s", "a.b", "st.a", "st.x1", "ss.b", ".st.a", "s.s_b"])
    if k < 0.25:
        return rng.choice(["lit", "1", "x-y", "p/q", "None"])
    if k < 0.4:
        return "$" + r
    if k < 0.5:
        return "$(" + rng.choice([r, dotted]) + ")"
    if k < 0.6:
        return rng.choice(["pre$%s", "$%s.post", "$(%s)post", "a$%s/b$(%s)x" % (r, "%s"), "$%s$%s" % (r, "%s")]) % r
    if k < 0.7:
        q = rng.choice(['"', "'", '"""', "'''"])
        inner = rng.choice(["$%s", "pre $%s post", "$(%s)", "no dollar", "\\\\$%s", "$%s $(" + dotted + ")"])
        inner = inner % r if "%s" in inner else inner
        return q + inner + q
    if k < 0.78:
        return rng.choice(["\\$" + r, "x\\$y", "$", "$(", "$(a", "$1", "$()", "$(1a)", "$-", "$$a", "$a$"])
    if k < 0.85:
        return "$(" + dotted + ")"
    return rng.choice(["w", "$" + r])


def gen_nodes(rng, depth):
    out = []
    for _ in range(rng.choice([1, 2, 2, 3, 4])):
        if depth > 0 and rng.random() < 0.3:
            name = rng.choice(["s", "t", "s.t", "st", "ss", "a"])
            out.append({"k": "s", "name": name, "dis": rng.random() < 0.05, "kids": gen_nodes(rng, depth - 1)})
        else:
            name = rng.choice(NAMES + ["a.b", "s.a", "t.c"])
            ws = [gen_word(rng) for _ in range(rng.choice([1, 1, 2, 3]))]
            out.append({"k": "d", "name": name, "dis": rng.random() < 0.05, "words": ws})
    return out


def gen_dense(rng, depth):
    """few names, many references: the same spelling is redefined between uses, shadowed by an inner scope and reached
    again through chains ($a ... a = ... $a $b), so one value meets one spelling at several lexical positions"""
    out = []
    names = ["a", "b", "c"]
    for _ in range(rng.randint(3, 6)):
        if depth > 0 and rng.random() < 0.25:
            out.append({"k": "s", "name": rng.choice(["s", "t"]), "dis": False, "kids": gen_dense(rng, depth - 1)})
            continue
        ws, specs = [], []
        for _ in range(rng.choice([1, 1, 2, 2, 3])):
            k = rng.random()
            r = rng.choice(names)
            r2 = rng.choice(names)
            if k < 0.25:
                t = rng.choice(["1", "2", "lit", "x-y"])
                sp = (None, [("lit", t)])
            elif k < 0.6:
                t, sp = "$" + r, (None, [("ref", r)])
            elif k < 0.7:
                n = rng.choice([r, "s." + r, "." + r, "t." + r, "s.t." + r])
                t, sp = "$(%s)" % n, (None, [("ref", n)])
            elif k < 0.85:
                t, sp = '"$%s-$%s"' % (r, r2), ('"', [("ref", r), ("lit", "-"), ("ref", r2)])
            else:
                t, sp = rng.choice([("p$%s" % r, (None, [("lit", "p"), ("ref", r)])),
                                    ("'$%s'" % r, ("'", [("lit", "$" + r)])),
                                    ("$%s$%s" % (r, r2), (None, [("ref", r), ("ref", r2)]))])
            ws.append(t)
            specs.append(sp)
        out.append({"k": "d", "name": rng.choice(names), "dis": False, "words": ws, "specs": specs})
    return out


DEF_ENDS = ["; ", ";", " ;  ", ";\n", "  # $a ; note\n"]     # a definition ends at ';' or at the end of its line


def lay_out(rng, nodes, p, last_of_scope=False):
    """layout choices, stored on the nodes so that every later rendering of (a truncated copy of) the tree is the same:
    statements that share a physical line (';' separator, one-line scopes 's { x = 1; y = $x }', an object right after a
    closing brace), the opening brace on its own line, blank and comment lines.  p = how often a choice leaves the
    one-object-per-line layout"""
    for i, n in enumerate(nodes):
        if rng.random() < p * 0.25:
            n["pre"] = rng.choice(["\n", "# c = $a\n", "\n\n", "  # a = 1; b = $a\n"])
        if n["k"] == "d":
            if rng.random() < p:
                n["end"] = rng.choice(DEF_ENDS)
                if last_of_scope and i == len(nodes) - 1 and rng.random() < 0.5:
                    n["end"] = " "            # the closing brace ends the value
        else:
            if rng.random() < p:
                n["open"] = rng.choice(["{ ", "{ ", "{", "\n{\n", "\n{ "])
            if rng.random() < p:
                n["end"] = rng.choice([" ", " ", "  ", "  # s = $a\n"])
            lay_out(rng, n["kids"], p, True)


def render(nodes, indent=""):
    out = []

    def bol():
        return not out or out[-1].endswith("\n")

    def walk(ns, ind):
        for n in ns:
            if "pre" in n and bol():
                out.append(n["pre"])
            if bol():
                out.append(ind)
            bang = "!" if n["dis"] else ""
            if n["k"] == "d":
                out.append("%s%s = %s" % (bang, n["name"], " ".join(n["words"])))
                out.append(n.get("end", "\n"))
            else:
                out.append("%s%s " % (bang, n["name"]))
                out.append(n.get("open", "{\n"))
                walk(n["kids"], ind + "  ")
                if bol():
                    out.append(ind)
                out.append("}")
                out.append(n.get("end", "\n"))
    walk(nodes, indent)
    if not bol():
        out.append("\n")
    return "".join(out)


class _Mismatch(Exception):
    pass


def positions(nodes, root):
    """document-order ordinal of every parsed object, read off the generator's tree and NOT off primary_id (the state the
    implementation itself orders by): the k-th object written gets k; the scopes a dotted name stands for are written
    with their object and share its ordinal.  None if the parsed tree is not the tree that was written."""
    pos = {}
    k = [0]

    def walk(ns, sc):
        if len(ns) != len(sc.objects):
            raise _Mismatch()
        for n, o in zip(ns, sc.objects):
            k[0] += 1
            comps = n["name"].split(".")
            for c in comps[:-1]:
                if not o.is_scope or o.name != c or len(o.objects) != 1:
                    raise _Mismatch()
                pos[id(o)] = k[0]
                o = o.objects[0]
            if o.name != comps[-1] or bool(o.is_scope) != (n["k"] == "s"):
                raise _Mismatch()
            pos[id(o)] = k[0]
            if n["k"] == "s":
                walk(n["kids"], o)
    try:
        walk(nodes, root)
    except _Mismatch:
        return None
    return pos


def truncate_after(nodes, target):
    """copy of the tree without anything that comes after `target` in document order (ancestors kept)"""
    out = []
    for n in nodes:
        if n is target:
            out.append(n)
            return out, True
        if n["k"] == "s":
            kids, found = truncate_after(n["kids"], target)
            if found:
                m = dict(n)
                m["kids"] = kids
                out.append(m)
                return out, True
        out.append(n)
    return out, False


def all_defs(root):
    out = []

    def walk(o):
        for c in o.objects:
            if c.is_definition:
                out.append(c)
            else:
                walk(c)
    walk(root)
    return out


def resolve_j(d, diff=False):
    return call_j(lambda: d.resolve_variables(diff_mode=diff).words, lambda ws: [word_j(w)[:2] + [None] for w in ws])


class env_as:
    def __init__(self, table):
        self.table = dict(table)

    def __enter__(self):
        self.saved = os.environ
        os.environ = self.table
        return self

    def __exit__(self, *a):
        os.environ = self.saved


def strip_lines(ans):
    """model words without line numbers (substituted words lose or keep lines as coded; values decide)"""
    if ans and ans[0] == "ok":
        return ["ok", [w[:2] + [None] for w in ans[1]]]
    return ans


def run(ctx):
    rng = ctx.rng
    n = ctx.scale(1200, 30000, 6000)
    for i in range(n):
        if ctx.time_left() < 25:
            ctx.notes.append("stopped early on time budget")
            break
        dense = i % 4 == 1
        nodes = gen_dense(rng, rng.choice([0, 1, 2])) if dense else gen_nodes(rng, rng.choice([0, 1, 2, 3]))
        ctx.count("dense_documents" if dense else "mixed_documents")
        # layout: 2 of 5 documents one object per line, the rest with statements sharing physical lines
        p = rng.choice([0, 0, 0.15, 0.5, 1.0])
        if p:
            lay_out(rng, nodes, p)
        text = render(nodes)
        ctx.count("layout_one_per_line" if not p else "layout_shared_lines_p%s" % p)
        env = {k: rng.choice(["E" + k, "v w", ""]) for k in ENVN if rng.random() < 0.4}
        try:
            root = freephil.parse(input_string=text)
        except BaseException:
            ctx.count("unparseable")
            continue
        diff = rng.random() < 0.15
        defs = all_defs(root)
        pos = positions(nodes, root)
        if pos is None:
            ctx.count("parsed_tree_differs_from_written_tree")   # the position-based clauses are skipped for it
        else:
            same_line(ctx, defs, pos)
        with env_as(env):
            impl = [resolve_j(d, diff) for d in defs]
        ctx.case((text, tuple(sorted(env.items())), diff), nontrivial="$" in text)
        if ctx.mode != "impl-only":
            from common import run_model, same_outcome
            a = run_model([["resolve", enc(text), [[enc(k), enc(v)] for k, v in env.items()], diff]])[0]
            ctx.traces += 1
            if a[0] != "ok" or len(a[1]) != len(impl):
                if not (a[0] == "parse-failed" and a[1][0] == "unsupported"):
                    ctx.disagree("resolve", {"text": text, "env": env, "diff": diff}, a, impl)
                else:
                    ctx.unsupported += 1
            else:
                for j, (m, im) in enumerate(zip(a[1], impl)):
                    s = same_outcome(strip_lines(m), im)
                    if s is False:
                        ctx.disagree("resolve", {"text": text, "env": env, "diff": diff, "definition": j}, m, im)
                        break
        for out in impl:
            ctx.count("outcome_" + (out[0] if out[0] == "ok" else out[2]))
        # ---- oracle
        for d, out in zip(defs, impl):
            f = clauses(d, out, diff)
            if f:
                # covered by D70 only when the input is of that class AND nothing else is wrong: with the '''-words
                # re-read as the code reads them (substitutable) the other clauses must hold
                cls = ["D70"] if d70_class(d) and not clauses(d, out, diff, single=("'",)) else None
                if cls:
                    ctx.count("definitions_with_substituted_triple_single_quotes")
                ctx.fail({"text": text, "env": env, "diff": diff, "definition": d.full_path()}, f, finding=cls)
                continue
            f = lookup_clause(root, d, out, env, diff, pos)
            if f:
                ctx.fail({"text": text, "env": env, "diff": diff, "definition": d.full_path()}, f)
        if dense and not diff and pos is not None:
            f = dense_clause(root, nodes, defs, impl, env, pos)
            if f:
                ctx.fail(dict({"text": text, "env": env}, **f[0]), f[1])
        if not diff:
            f = metamorphic(rng, nodes, text, env, root, defs, impl)
            if f:
                ctx.fail({"text": text, "env": env}, f)
        if i % 200 == 0:
            ctx.sample({"text": text, "env": env, "resolved": [o if o[0] != "ok" else [dec(w[0]) for w in o[1]] for o in impl][:6]})


def same_line(ctx, defs, pos):
    """distribution: definitions that have an earlier object starting on their own physical line"""
    first = {}
    for d in defs:
        ln = d.words[0].line_number if d.words else None
        if ln in first and first[ln] < pos[id(d)]:
            ctx.count("definitions_sharing_a_line_with_an_earlier_one")
        first.setdefault(ln, pos[id(d)])


def enclosing_scopes(root, d):
    """the scope objects that enclose d, innermost first, root last"""
    chain = []

    def walk(o, anc):
        for c in o.objects:
            if c is d:
                chain.extend(anc)
                return True
            if c.is_scope and walk(c, [c] + anc):
                return True
        return False
    walk(root, [root])
    return chain


def relative_matches(scope, name):
    """objects below `scope` whose dotted path relative to it is `name`, in document order"""
    out = []

    def walk(o, prefix):
        for c in o.objects:
            p = prefix + c.name
            if p == name:
                out.append(c)
            elif c.is_scope and name.startswith(p + "."):
                walk(c, p + ".")
    walk(scope, "")
    return out


def ref_lookup(root, d, name, pos):
    """independent reading of the statement: the nearest object named `name` relative to an enclosing scope of d
    (searched outward; root-anchored with a leading '.') that appears earlier in the document; None if there is none"""
    chain = enclosing_scopes(root, d)
    if name.startswith("."):
        chain, name = [root], name[1:]
    for scope in chain:
        # "appears earlier": position in the text as written (`positions`), whatever the layout - several statements on
        # one line are still one after the other (the scopes a dotted name creates share their definition's position)
        hits = [o for o in relative_matches(scope, name) if o is not d and pos[id(o)] < pos[id(d)]]
        if hits:
            return hits[-1]
    return None


class _Refused(Exception):
    pass


def reference_resolve(root, d, specs, spec_of, env, pos):
    """the statement read directly, for documents whose words are generated from (quote, fragments) specifications:
    every reference denotes the nearest earlier definition *seen from the definition that contains the reference*"""
    out = []
    for q, frags in specs:
        if q == "'" or all(k == "lit" for k, _ in frags):
            out.append(("".join(v for _, v in frags), q))
            continue
        vals = []
        for k, v in frags:
            if k == "lit":
                vals.append([(v, None)])
                continue
            t = ref_lookup(root, d, v, pos)
            if t is None:
                if v in env:
                    vals.append([(env[v], '"')])
                    continue
                raise _Refused("undefined")
            if t.is_scope:
                raise _Refused("scope")
            vals.append(reference_resolve(root, t, spec_of[id(t)], spec_of, env, pos))
        if q is None and len(frags) == 1:
            out.extend(vals[0])
        else:
            out.append(("".join(" ".join(x for x, _ in ws) for ws in vals), '"'))
    return out


def flat_nodes(nodes):
    for n in nodes:
        if n["k"] == "d":
            yield n
        else:
            yield from flat_nodes(n["kids"])


def dense_clause(root, nodes, defs, impl, env, pos):
    """dense documents: every definition against the reference reading"""
    dn = list(flat_nodes(nodes))
    if len(dn) != len(defs):
        return None
    spec_of = {id(d): n["specs"] for d, n in zip(defs, dn)}
    from common import quote_tag
    for d, out in zip(defs, impl):
        try:
            want = reference_resolve(root, d, spec_of[id(d)], spec_of, env, pos)
        except _Refused as e:
            if out[0] != "err":
                return ({"definition": d.full_path()}, "reference reading refuses (%s) but the result is %r" % (e, out))
            continue
        wantj = ["ok", [[enc(v), quote_tag(q), None] for v, q in want]]
        if out != wantj:
            got = out if out[0] != "ok" else [(dec(w[0]), w[1]) for w in out[1]]
            return ({"definition": d.full_path()},
                    "%s resolves to %r; read lexically from each referencing position it is %r" % (d.full_path(), got, want))
    return None


def lookup_clause(root, d, out, env, diff, pos):
    """a word that is exactly one unquoted variable takes over the words of the nearest earlier definition"""
    if len(d.words) != 1 or d.words[0].quote_token is not None or diff or pos is None:
        return None
    v = d.words[0].value
    if v.startswith("$(") and v.endswith(")") and v.count("$") == 1 and ")" not in v[2:-1]:
        name = v[2:-1]
    elif v.startswith("$") and v.count("$") == 1 and v[1:].replace("_", "a").isalnum() and v[1:2].isalpha() | (v[1:2] == "_"):
        name = v[1:]
    else:
        return None
    if not freephil.is_standard_identifier(name[1:] if name.startswith(".") else name):
        return None
    target = ref_lookup(root, d, name, pos)
    if target is None:
        if name in env:
            want = ["ok", [[enc(env[name]), "d1", None]]]
        else:
            return None if out[0] == "err" and out[2] == "undefined_variable" else (
                "no earlier definition of %s and no environment value, yet the result is %r" % (name, out))
        return None if out == want else "environment fallback for %s gave %r" % (name, out)
    if target.is_scope:
        return None if out[0] == "err" and out[2] == "not_a_definition" else (
            "nearest earlier object named %s is a scope, yet the result is %r" % (name, out))
    if any("$" in w.value and w.quote_token != "'" for w in target.words):
        return None
    want = ["ok", [word_j(w)[:2] + [None] for w in target.words]]
    if out != want:
        return "%s should take the words of the nearest earlier definition %s (%r) but resolves to %r" % (
            d.full_path(), target.full_path(), [w.value for w in target.words], out)
    return None


SINGLE_QUOTES = ("'", "'''")   # "never inside single quotes": one or three of them (finding D70: the code tests one only)


def d70_class(d):
    """finding class D70, a predicate on the INPUT: the definition has a '''-quoted word with an unescaped '$'"""
    return any(w.quote_token == "'''" and w.value.count("$") > w.value.count("\\$") for w in d.words)


def clauses(d, out, diff, single=SINGLE_QUOTES):
    ws = d.words
    if all(w.quote_token in single or "$" not in w.value for w in ws):
        want = ["ok", [word_j(w)[:2] + [None] for w in ws]]
        if out != want:
            return "words without '$' / in single quotes were not passed through untouched: %r" % (out,)
        return None
    if out[0] == "ok":
        # every input word that is untouched must appear unchanged at its place when it is the only word
        if len(ws) == 1:
            w = ws[0]
            v = w.value
            is_one_var = w.quote_token is None and (
                (v.startswith("$(") and v.endswith(")") and v.count("$") == 1 and ")" not in v[2:-1]) or
                (v.startswith("$") and v.count("$") == 1 and v[1:].replace("_", "a").isalnum() and not v[1:2].isdigit()))
            if not is_one_var and "$" in v and w.quote_token not in single:
                if "\\$" in v and v.count("$") == v.count("\\$"):
                    return None  # only escaped dollars: no variables, passed through
                if len(out[1]) != 1 or out[1][0][1] != "d1":
                    return "a mixture of text and variables did not become one double-quoted word: %r" % (out[1],)
    elif out[1] != "runtime":
        return "resolution raised %r" % (out[1:3],)
    return None


def metamorphic(rng, nodes, text, env, root, defs, impl):
    # (a) delete everything after a definition: its result must not change
    flat = []

    def walk(ns):
        for n in ns:
            if n["k"] == "d":
                flat.append(n)
            else:
                walk(n["kids"])
    walk(nodes)
    if not flat or len(flat) != len(defs):
        return None
    j = rng.randrange(len(flat))
    cut, _ = truncate_after(nodes, flat[j])
    t2 = render(cut)
    try:
        r2 = freephil.parse(input_string=t2)
    except BaseException:
        return None
    d2 = all_defs(r2)
    if len(d2) != j + 1:
        return None
    with env_as(env):
        out2 = resolve_j(d2[j])
    if out2[:3] != impl[j][:3] or (out2[0] == "ok" and out2 != impl[j]):
        return ("definition %s resolves to %r, but to %r once everything after it is deleted: later objects influence the "
                "result" % (defs[j].full_path(), impl[j], out2))
    # (b) flip the environment: results that came from an earlier definition must not change
    env2 = {k: "OTHER" for k in ENVN if k not in env}
    with env_as(env2):
        out3 = [resolve_j(d) for d in defs]
    with env_as({}):
        out0 = [resolve_j(d) for d in defs]
    for d, a, b, c in zip(defs, impl, out3, out0):
        if c[0] == "ok" and (a != c or b != c):
            return "definition %s resolves without any environment (%r) yet its result depends on the environment" % (
                d.full_path(), c)
    return None


def finding_still_fails(f):
    """replays the witness of a known finding on the implementation"""
    w = f["witness"]
    if f["id"] == "D70":
        try:
            root = freephil.parse(input_string=w["text"])
            d = [x for x in all_defs(root) if x.full_path() == w["definition"]][0]
            with env_as({}):
                got = [[x.value, x.quote_token] for x in d.resolve_variables().words]
        except RuntimeError:
            return True          # '''$a''' must be passed through, not looked up
        except Exception:        # a tree on which the witness does not even run: the finding covers nothing there
            return False
        return got != [list(x) for x in w["required"]]
    return True


def replay(payload):
    c = payload["failure"]["case"]
    print(c)
    root = freephil.parse(input_string=c["text"])
    with env_as(c.get("env", {})):
        for d in all_defs(root):
            print(d.full_path(), resolve_j(d, c.get("diff", False)))
    return False
