"""C12 — $variables resolve lexically, backwards only, and never inside single quotes."""
import os

from common import freephil, enc, dec, call_j, word_j, classify_runtime

LEVEL = "proof"
MODULE = "Phil.Props.C12"
LEVEL_TEXT = "Lean theorems about the substitution model: the operational resolution equals a fuel-free denotational specification for every environment, position and both modes on every parser output (resolveAt_eq_denote_parsed); and INSIDE fetch: on nested masters (also with .multiple definitions) the fetch of parsed sources with variables equals the tree result over the DENOTED words, or the first resolution error in master order (fetch_with_variables_of_texts, fetch_tree_multi_vars_total), whole-fetch environment independence (fetch_env_independent), later definitions irrelevant, the consumed-by-reference rule for the unused list; resolution never strays nor runs out of fuel. Tied to /repo by a correspondence run of resolve_variables of every definition of generated documents x environments (several objects per line, one-line scopes, sources read through include files); the oracle reads 'earlier' from document positions of the generator's tree and evaluates the clauses on the implementation."
LEVEL_NOTE = "os.environ is a parameter of the model. $a.b reads as variable a followed by '.b', as coded. Findings on the unchanged tree: D70 (triple-single-quoted text is substituted; the oracle reads ''' as single quotes and tags its failures on such definitions); disabled definitions serve as variable sources (outside the statement's wording); variables do not cross an include boundary (D71)."
TECHNIQUE = 'Lean 4 refinement of operational resolution to a denotational specification, lifted into the fetch closed form + differential correspondence + position-based reference oracle'
RULE = ("documents of definitions and nested scopes (depth <= 3) whose words mix literals, $x, $(x), $(a.b), $(.a.b), \\$, all "
        "quote styles, references to scopes, later definitions, themselves and undefined names x environments that do or do not "
        "define the names x layouts (one object per line; statements sharing a physical line through ';', one-line scopes, "
        "objects right after a closing brace; brace on its own line; blank / comment lines); 'earlier' in the oracle is the "
        "position in the text as written by the generator, not primary_id; non-trivial = the definition contains a '$'; "
        "distinct = (document, env); plus sources made of 2-3 files read with parse(file_name=, process_includes=True): "
        "`include file` at the top level / inside a scope / in a file that is itself included / the same file twice, "
        "$variables in every file; each definition is resolved through the including file and through "
        "master.fetch(combined source), 'the same source' = the file the reference is written in (names without an "
        "earlier definition in their own file are not judged); model = resolution of each file's own text")
ASSUMPTIONS = ["documents are variable-substituted through definition.resolve_variables (what fetch calls)",
               "across `include file` the unchanged tree keeps every file a lexical island (an included reference does not see "
               "the includer's definitions and vice versa): recorded, neither demanded nor forbidden by the oracle"]
NAMES = ["a", "b", "c", "s", "t", "x1", "s_b", "t_b", "ab", "sa", "st"]   # incl. names that extend scope names
ENVN = ["a", "b", "c", "HOME_X", "zz", "x1", "s", "a.b", "s_b", "t_b", "ab", "st"]


def gen_word(rng):
    k = rng.random()
    refs = NAMES + ["zz", "HOME_X"]
    r = rng.choice(refs)
    dotted = rng.choice(["s.a", "s.t.b", ".a", ".s.a", "t.c", ".zz", "s", "a.b", "st.a", "st.x1", "ss.b", ".st.a", "s.s_b"])
    if k < 0.25:
        return rng.choice(["lit", "1", "x-y", "p/q", "None"])
    if k < 0.4:
        return "$" + r
    if k < 0.5:
        return "$(" + rng.choice([r, dotted]) + ")"
    if k < 0.6:
        return rng.choice(["pre$%s", "$%s.post", "$(%s)post", "a$%s/b$(%s)x" % (r, "%s"), "$%s$%s" % (r, "%s")]) % r
    if k < 0.7:
        q = rng.choice(['"', "'", '"""', "'''"])
        inner = rng.choice(["$%s", "pre $%s post", "$(%s)", "no dollar", "\\\\$%s", "$%s $(" + dotted + ")"])
        inner = inner % r if "%s" in inner else inner
        return q + inner + q
    if k < 0.78:
        return rng.choice(["\\$" + r, "x\\$y", "$", "$(", "$(a", "$1", "$()", "$(1a)", "$-", "$$a", "$a$"])
    if k < 0.85:
        return "$(" + dotted + ")"
    return rng.choice(["w", "$" + r])


def gen_nodes(rng, depth):
    out = []
    for _ in range(rng.choice([1, 2, 2, 3, 4])):
        if depth > 0 and rng.random() < 0.3:
            name = rng.choice(["s", "t", "s.t", "st", "ss", "a"])
            out.append({"k": "s", "name": name, "dis": rng.random() < 0.05, "kids": gen_nodes(rng, depth - 1)})
        else:
            name = rng.choice(NAMES + ["a.b", "s.a", "t.c"])
            ws = [gen_word(rng) for _ in range(rng.choice([1, 1, 2, 3]))]
            out.append({"k": "d", "name": name, "dis": rng.random() < 0.05, "words": ws})
    return out


def gen_dense(rng, depth):
    """few names, many references: the same spelling is redefined between uses, shadowed by an inner scope and reached
    again through chains ($a ... a = ... $a $b), so one value meets one spelling at several lexical positions"""
    out = []
    names = ["a", "b", "c"]
    for _ in range(rng.randint(3, 6)):
        if depth > 0 and rng.random() < 0.25:
            out.append({"k": "s", "name": rng.choice(["s", "t"]), "dis": False, "kids": gen_dense(rng, depth - 1)})
            continue
        ws, specs = [], []
        for _ in range(rng.choice([1, 1, 2, 2, 3])):
            k = rng.random()
            r = rng.choice(names)
            r2 = rng.choice(names)
            if k < 0.25:
                t = rng.choice(["1", "2", "lit", "x-y"])
                sp = (None, [("lit", t)])
            elif k < 0.6:
                t, sp = "$" + r, (None, [("ref", r)])
            elif k < 0.7:
                n = rng.choice([r, "s." + r, "." + r, "t." + r, "s.t." + r])
                t, sp = "$(%s)" % n, (None, [("ref", n)])
            elif k < 0.85:
                t, sp = '"$%s-$%s"' % (r, r2), ('"', [("ref", r), ("lit", "-"), ("ref", r2)])
            else:
                t, sp = rng.choice([("p$%s" % r, (None, [("lit", "p"), ("ref", r)])),
                                    ("'$%s'" % r, ("'", [("lit", "$" + r)])),
                                    ("$%s$%s" % (r, r2), (None, [("ref", r), ("ref", r2)]))])
            ws.append(t)
            specs.append(sp)
        out.append({"k": "d", "name": rng.choice(names), "dis": False, "words": ws, "specs": specs})
    return out


DEF_ENDS = ["; ", ";", " ;  ", ";\n", "  # $a ; note\n"]     # a definition ends at ';' or at the end of its line


def lay_out(rng, nodes, p, last_of_scope=False):
    """layout choices, stored on the nodes so that every later rendering of (a truncated copy of) the tree is the same:
    statements that share a physical line (';' separator, one-line scopes 's { x = 1; y = $x }', an object right after a
    closing brace), the opening brace on its own line, blank and comment lines.  p = how often a choice leaves the
    one-object-per-line layout"""
    for i, n in enumerate(nodes):
        if rng.random() < p * 0.25:
            n["pre"] = rng.choice(["\n", "# c = $a\n", "\n\n", "  # a = 1; b = $a\n"])
        if n["k"] in ("d", "i"):
            if rng.random() < p:
                n["end"] = rng.choice(DEF_ENDS)
                if last_of_scope and i == len(nodes) - 1 and rng.random() < 0.5:
                    n["end"] = " "            # the closing brace ends the value
        else:
            if rng.random() < p:
                n["open"] = rng.choice(["{ ", "{ ", "{", "\n{\n", "\n{ "])
            if rng.random() < p:
                n["end"] = rng.choice([" ", " ", "  ", "  # s = $a\n"])
            lay_out(rng, n["kids"], p, True)


def render(nodes, indent=""):
    out = []

    def bol():
        return not out or out[-1].endswith("\n")

    def walk(ns, ind):
        for n in ns:
            if "pre" in n and bol():
                out.append(n["pre"])
            if bol():
                out.append(ind)
            bang = "!" if n.get("dis") else ""
            if n["k"] == "i":
                out.append("include file %s" % n["name"])
                out.append(n.get("end", "\n"))
            elif n["k"] == "d":
                out.append("%s%s = %s" % (bang, n["name"], " ".join(n["words"])))
                out.append(n.get("end", "\n"))
            else:
                out.append("%s%s " % (bang, n["name"]))
                out.append(n.get("open", "{\n"))
                walk(n["kids"], ind + "  ")
                if bol():
                    out.append(ind)
                out.append("}")
                out.append(n.get("end", "\n"))
    walk(nodes, indent)
    if not bol():
        out.append("\n")
    return "".join(out)


class _Mismatch(Exception):
    pass


def positions(nodes, root):
    """document-order ordinal of every parsed object, read off the generator's tree and NOT off primary_id (the state the
    implementation itself orders by): the k-th object written gets k; the scopes a dotted name stands for are written
    with their object and share its ordinal.  None if the parsed tree is not the tree that was written."""
    pos = {}
    k = [0]

    def walk(ns, sc):
        if len(ns) != len(sc.objects):
            raise _Mismatch()
        for n, o in zip(ns, sc.objects):
            k[0] += 1
            comps = n["name"].split(".")
            for c in comps[:-1]:
                if not o.is_scope or o.name != c or len(o.objects) != 1:
                    raise _Mismatch()
                pos[id(o)] = k[0]
                o = o.objects[0]
            if o.name != comps[-1] or bool(o.is_scope) != (n["k"] == "s"):
                raise _Mismatch()
            pos[id(o)] = k[0]
            if n["k"] == "s":
                walk(n["kids"], o)
    try:
        walk(nodes, root)
    except _Mismatch:
        return None
    return pos


def truncate_after(nodes, target):
    """copy of the tree without anything that comes after `target` in document order (ancestors kept)"""
    out = []
    for n in nodes:
        if n is target:
            out.append(n)
            return out, True
        if n["k"] == "s":
            kids, found = truncate_after(n["kids"], target)
            if found:
                m = dict(n)
                m["kids"] = kids
                out.append(m)
                return out, True
        out.append(n)
    return out, False


def all_defs(root):
    out = []

    def walk(o):
        for c in o.objects:
            if c.is_definition:
                out.append(c)
            else:
                walk(c)
    walk(root)
    return out


def resolve_j(d, diff=False):
    return call_j(lambda: d.resolve_variables(diff_mode=diff).words, lambda ws: [word_j(w)[:2] + [None] for w in ws])


class env_as:
    def __init__(self, table):
        self.table = dict(table)

    def __enter__(self):
        self.saved = os.environ
        os.environ = self.table
        return self

    def __exit__(self, *a):
        os.environ = self.saved


def strip_lines(ans):
    """model words without line numbers (substituted words lose or keep lines as coded; values decide)"""
    if ans and ans[0] == "ok":
        return ["ok", [w[:2] + [None] for w in ans[1]]]
    return ans


def run(ctx):
    rng = ctx.rng
    n = ctx.scale(1200, 30000, 6000)
    for i in range(n):
        if ctx.time_left() < 25:
            ctx.notes.append("stopped early on time budget")
            break
        dense = i % 4 == 1
        nodes = gen_dense(rng, rng.choice([0, 1, 2])) if dense else gen_nodes(rng, rng.choice([0, 1, 2, 3]))
        ctx.count("dense_documents" if dense else "mixed_documents")
        # layout: 2 of 5 documents one object per line, the rest with statements sharing physical lines
        p = rng.choice([0, 0, 0.15, 0.5, 1.0])
        if p:
            lay_out(rng, nodes, p)
        text = render(nodes)
        ctx.count("layout_one_per_line" if not p else "layout_shared_lines_p%s" % p)
        env = {k: rng.choice(["E" + k, "v w", ""]) for k in ENVN if rng.random() < 0.4}
        try:
            root = freephil.parse(input_string=text)
        except BaseException:
            ctx.count("unparseable")
            continue
        diff = rng.random() < 0.15
        defs = all_defs(root)
        pos = positions(nodes, root)
        if pos is None:
            ctx.count("parsed_tree_differs_from_written_tree")   # the position-based clauses are skipped for it
        else:
            same_line(ctx, defs, pos)
        with env_as(env):
            impl = [resolve_j(d, diff) for d in defs]
        ctx.case((text, tuple(sorted(env.items())), diff), nontrivial="$" in text)
        if ctx.mode != "impl-only":
            from common import run_model, same_outcome
            a = run_model([["resolve", enc(text), [[enc(k), enc(v)] for k, v in env.items()], diff]])[0]
            ctx.traces += 1
            if a[0] != "ok" or len(a[1]) != len(impl):
                if not (a[0] == "parse-failed" and a[1][0] == "unsupported"):
                    ctx.disagree("resolve", {"text": text, "env": env, "diff": diff}, a, impl)
                else:
                    ctx.unsupported += 1
            else:
                for j, (m, im) in enumerate(zip(a[1], impl)):
                    s = same_outcome(strip_lines(m), im)
                    if s is False:
                        ctx.disagree("resolve", {"text": text, "env": env, "diff": diff, "definition": j}, m, im)
                        break
        for out in impl:
            ctx.count("outcome_" + (out[0] if out[0] == "ok" else out[2]))
        # ---- oracle
        for d, out in zip(defs, impl):
            f = clauses(d, out, diff)
            if f:
                # covered by D70 only when the input is of that class AND nothing else is wrong: with the '''-words
                # re-read as the code reads them (substitutable) the other clauses must hold
                cls = ["D70"] if d70_class(d) and not clauses(d, out, diff, single=("'",)) else None
                if cls:
                    ctx.count("definitions_with_substituted_triple_single_quotes")
                ctx.fail({"text": text, "env": env, "diff": diff, "definition": d.full_path()}, f, finding=cls)
                continue
            f = lookup_clause(root, d, out, env, diff, pos)
            if f:
                ctx.fail({"text": text, "env": env, "diff": diff, "definition": d.full_path()}, f)
        if dense and not diff and pos is not None:
            f = dense_clause(root, nodes, defs, impl, env, pos)
            if f:
                ctx.fail(dict({"text": text, "env": env}, **f[0]), f[1])
        if not diff:
            f = metamorphic(rng, nodes, text, env, root, defs, impl)
            if f:
                ctx.fail({"text": text, "env": env}, f)
        if i % 200 == 0:
            ctx.sample({"text": text, "env": env, "resolved": [o if o[0] != "ok" else [dec(w[0]) for w in o[1]] for o in impl][:6]})
    include_stream(ctx)


def same_line(ctx, defs, pos):
    """distribution: definitions that have an earlier object starting on their own physical line"""
    first = {}
    for d in defs:
        ln = d.words[0].line_number if d.words else None
        if ln in first and first[ln] < pos[id(d)]:
            ctx.count("definitions_sharing_a_line_with_an_earlier_one")
        first.setdefault(ln, pos[id(d)])


def enclosing_scopes(root, d):
    """the scope objects that enclose d, innermost first, root last"""
    chain = []

    def walk(o, anc):
        for c in o.objects:
            if c is d:
                chain.extend(anc)
                return True
            if c.is_scope and walk(c, [c] + anc):
                return True
        return False
    walk(root, [root])
    return chain


def relative_matches(scope, name):
    """objects below `scope` whose dotted path relative to it is `name`, in document order"""
    out = []

    def walk(o, prefix):
        for c in o.objects:
            p = prefix + c.name
            if p == name:
                out.append(c)
            elif c.is_scope and name.startswith(p + "."):
                walk(c, p + ".")
    walk(scope, "")
    return out


def ref_lookup(root, d, name, pos):
    """independent reading of the statement: the nearest object named `name` relative to an enclosing scope of d
    (searched outward; root-anchored with a leading '.') that appears earlier in the document; None if there is none"""
    chain = enclosing_scopes(root, d)
    if name.startswith("."):
        chain, name = [root], name[1:]
    for scope in chain:
        # "appears earlier": position in the text as written (`positions`), whatever the layout - several statements on
        # one line are still one after the other (the scopes a dotted name creates share their definition's position)
        hits = [o for o in relative_matches(scope, name) if o is not d and pos[id(o)] < pos[id(d)]]
        if hits:
            return hits[-1]
    return None


class _Refused(Exception):
    pass


class _NotJudged(Exception):
    pass


def reference_resolve(root, d, specs, spec_of, env, pos, defined_only=False):
    """the statement read directly, for documents whose words are generated from (quote, fragments) specifications:
    every reference denotes the nearest earlier definition *seen from the definition that contains the reference*.
    defined_only: a name without an earlier definition in this source is not judged (documents that are one file of
    several: what such a name falls back to is not part of the statement)"""
    out = []
    for q, frags in specs:
        if q == "'" or all(k == "lit" for k, _ in frags):
            out.append(("".join(v for _, v in frags), q))
            continue
        vals = []
        for k, v in frags:
            if k == "lit":
                vals.append([(v, None)])
                continue
            t = ref_lookup(root, d, v, pos)
            if t is None and defined_only:
                raise _NotJudged()
            if t is None:
                if v in env:
                    vals.append([(env[v], '"')])
                    continue
                raise _Refused("undefined")
            if t.is_scope:
                raise _Refused("scope")
            vals.append(reference_resolve(root, t, spec_of[id(t)], spec_of, env, pos, defined_only))
        if q is None and len(frags) == 1:
            out.extend(vals[0])
        else:
            out.append(("".join(" ".join(x for x, _ in ws) for ws in vals), '"'))
    return out


def flat_nodes(nodes):
    for n in nodes:
        if n["k"] == "d":
            yield n
        elif n["k"] == "s":
            yield from flat_nodes(n["kids"])


def dense_clause(root, nodes, defs, impl, env, pos, defined_only=False):
    """dense documents: every definition against the reference reading"""
    dn = list(flat_nodes(nodes))
    if len(dn) != len(defs):
        return None
    spec_of = {id(d): n["specs"] for d, n in zip(defs, dn)}
    from common import quote_tag
    for d, out in zip(defs, impl):
        try:
            want = reference_resolve(root, d, spec_of[id(d)], spec_of, env, pos, defined_only)
        except _NotJudged:
            continue
        except _Refused as e:
            if out[0] != "err":
                return ({"definition": d.full_path()}, "reference reading refuses (%s) but the result is %r" % (e, out))
            continue
        wantj = ["ok", [[enc(v), quote_tag(q), None] for v, q in want]]
        if out != wantj:
            got = out if out[0] != "ok" else [(dec(w[0]), w[1]) for w in out[1]]
            return ({"definition": d.full_path()},
                    "%s resolves to %r; read lexically from each referencing position it is %r" % (d.full_path(), got, want))
    return None


def lookup_clause(root, d, out, env, diff, pos, defined_only=False):
    """a word that is exactly one unquoted variable takes over the words of the nearest earlier definition"""
    if len(d.words) != 1 or d.words[0].quote_token is not None or diff or pos is None:
        return None
    v = d.words[0].value
    if v.startswith("$(") and v.endswith(")") and v.count("$") == 1 and ")" not in v[2:-1]:
        name = v[2:-1]
    elif v.startswith("$") and v.count("$") == 1 and v[1:].replace("_", "a").isalnum() and v[1:2].isalpha() | (v[1:2] == "_"):
        name = v[1:]
    else:
        return None
    if not freephil.is_standard_identifier(name[1:] if name.startswith(".") else name):
        return None
    target = ref_lookup(root, d, name, pos)
    if target is None and defined_only:
        return None
    if target is None:
        if name in env:
            want = ["ok", [[enc(env[name]), "d1", None]]]
        else:
            return None if out[0] == "err" and out[2] == "undefined_variable" else (
                "no earlier definition of %s and no environment value, yet the result is %r" % (name, out))
        return None if out == want else "environment fallback for %s gave %r" % (name, out)
    if target.is_scope:
        return None if out[0] == "err" and out[2] == "not_a_definition" else (
            "nearest earlier object named %s is a scope, yet the result is %r" % (name, out))
    if any("$" in w.value and w.quote_token != "'" for w in target.words):
        return None
    want = ["ok", [word_j(w)[:2] + [None] for w in target.words]]
    if out != want:
        return "%s should take the words of the nearest earlier definition %s (%r) but resolves to %r" % (
            d.full_path(), target.full_path(), [w.value for w in target.words], out)
    return None


SINGLE_QUOTES = ("'", "'''")   # "never inside single quotes": one or three of them (finding D70: the code tests one only)


def d70_class(d):
    """finding class D70, a predicate on the INPUT: the definition has a '''-quoted word with an unescaped '$'"""
    return any(w.quote_token == "'''" and w.value.count("$") > w.value.count("\\$") for w in d.words)


def clauses(d, out, diff, single=SINGLE_QUOTES):
    ws = d.words
    if all(w.quote_token in single or "$" not in w.value for w in ws):
        want = ["ok", [word_j(w)[:2] + [None] for w in ws]]
        if out != want:
            return "words without '$' / in single quotes were not passed through untouched: %r" % (out,)
        return None
    if out[0] == "ok":
        # every input word that is untouched must appear unchanged at its place when it is the only word
        if len(ws) == 1:
            w = ws[0]
            v = w.value
            is_one_var = w.quote_token is None and (
                (v.startswith("$(") and v.endswith(")") and v.count("$") == 1 and ")" not in v[2:-1]) or
                (v.startswith("$") and v.count("$") == 1 and v[1:].replace("_", "a").isalnum() and not v[1:2].isdigit()))
            if not is_one_var and "$" in v and w.quote_token not in single:
                if "\\$" in v and v.count("$") == v.count("\\$"):
                    return None  # only escaped dollars: no variables, passed through
                if len(out[1]) != 1 or out[1][0][1] != "d1":
                    return "a mixture of text and variables did not become one double-quoted word: %r" % (out[1],)
    elif out[1] != "runtime":
        return "resolution raised %r" % (out[1:3],)
    return None


def metamorphic(rng, nodes, text, env, root, defs, impl):
    # (a) delete everything after a definition: its result must not change
    flat = []

    def walk(ns):
        for n in ns:
            if n["k"] == "d":
                flat.append(n)
            else:
                walk(n["kids"])
    walk(nodes)
    if not flat or len(flat) != len(defs):
        return None
    j = rng.randrange(len(flat))
    cut, _ = truncate_after(nodes, flat[j])
    t2 = render(cut)
    try:
        r2 = freephil.parse(input_string=t2)
    except BaseException:
        return None
    d2 = all_defs(r2)
    if len(d2) != j + 1:
        return None
    with env_as(env):
        out2 = resolve_j(d2[j])
    if out2[:3] != impl[j][:3] or (out2[0] == "ok" and out2 != impl[j]):
        return ("definition %s resolves to %r, but to %r once everything after it is deleted: later objects influence the "
                "result" % (defs[j].full_path(), impl[j], out2))
    # (b) flip the environment: results that came from an earlier definition must not change
    env2 = {k: "OTHER" for k in ENVN if k not in env}
    with env_as(env2):
        out3 = [resolve_j(d) for d in defs]
    with env_as({}):
        out0 = [resolve_j(d) for d in defs]
    for d, a, b, c in zip(defs, impl, out3, out0):
        if c[0] == "ok" and (a != c or b != c):
            return "definition %s resolves without any environment (%r) yet its result depends on the environment" % (
                d.full_path(), c)
    return None


def finding_still_fails(f):
    """replays the witness of a known finding on the implementation"""
    w = f["witness"]
    if f["id"] == "D70":
        try:
            root = freephil.parse(input_string=w["text"])
            d = [x for x in all_defs(root) if x.full_path() == w["definition"]][0]
            with env_as({}):
                got = [[x.value, x.quote_token] for x in d.resolve_variables().words]
        except RuntimeError:
            return True          # '''$a''' must be passed through, not looked up
        except Exception:        # a tree on which the witness does not even run: the finding covers nothing there
            return False
        return got != [list(x) for x in w["required"]]
    return True

# ---------------------------------------------------------------------------------------------------------------------
# sources made of several files: parse(file_name=..., process_includes=True), then resolve_variables / fetch.
# "the same source" of a reference is the FILE it is written in: a $name inside an included file denotes the nearest
# earlier definition of that file, whatever the including file defines before the include statement, wherever the
# include statement stands (top level, inside a scope, in a file that is itself included) and however often the file
# is included.

class _V:
    """one parsed object as a member of its own source file: .objects holds the objects written in the same file only
    (what an include statement inside a scope brought in belongs to the other file)"""
    __slots__ = ("obj", "name", "is_scope", "is_definition", "objects", "path")

    def __init__(self, obj, name, path):
        self.obj = obj
        self.name = name
        self.is_scope = bool(obj is not None and obj.is_scope) or obj is None
        self.is_definition = not self.is_scope
        self.objects = []
        self.path = path

    @property
    def words(self):
        return self.obj.words

    def full_path(self):
        return self.path


def gen_files(rng):
    """a main file and one or two further files; every further file is reached through `include file` statements
    written at the top level or inside a scope of the main file or of another included file (no cycles); a file may be
    included more than once"""
    nf = rng.choice([2, 2, 3])
    files = []
    for i in range(nf):
        dense = rng.random() < 0.4
        depth = rng.choice([0, 1, 1, 2])
        nodes = gen_dense(rng, depth) if dense else gen_nodes(rng, depth)
        files.append({"name": "main.phil" if i == 0 else "inc%d.phil" % i, "nodes": nodes, "dense": dense})

    def put(i, j):
        ns = files[i]["nodes"]
        while True:
            scopes = [n for n in ns if n["k"] == "s" and not n["dis"]]
            if scopes and rng.random() < 0.35:
                ns = rng.choice(scopes)["kids"]
            else:
                break
        # anywhere, but more often late in the list: many definitions then precede the include statement
        at = rng.choice([rng.randint(0, len(ns)), len(ns), len(ns)])
        ns.insert(at, {"k": "i", "name": files[j]["name"], "file": j})
    put(0, 1)
    if nf == 3:
        put(rng.choice([0, 1, 1]), 2)
    if rng.random() < 0.25:
        j = rng.randrange(1, nf)
        put(rng.randrange(0, j), j)
    return files


def file_views(files, processed):
    """parallel walk of the trees as written and the tree with the includes processed: for every inclusion instance of
    every file the view of its objects (_V, own-file members only), its definitions in document order and the position
    table (ordinal of each object within ITS file, the include statement counting as one object).  None if the
    processed tree is not what was written."""
    insts = []
    pos = {}

    def new_inst(fi):
        inst = {"file": fi, "root": _V(None, "", ""), "defs": [], "k": 0}
        insts.append(inst)
        return inst

    def walk(nodes, inst, pv, it, prefix):
        for n in nodes:
            inst["k"] += 1
            if n["k"] == "i":
                sub = new_inst(n["file"])
                walk(files[n["file"]]["nodes"], sub, sub["root"], it, "")
                continue
            o = next(it, None)
            if o is None:
                raise _Mismatch()
            k = inst["k"]
            comps = n["name"].split(".")
            at, path = pv, prefix
            for c in comps[:-1]:
                if not o.is_scope or o.name != c or len(o.objects) != 1:
                    raise _Mismatch()
                path = path + c + "."
                v = _V(o, c, path[:-1])
                pos[id(v)] = k
                at.objects.append(v)
                at, o = v, o.objects[0]
            if o.name != comps[-1] or bool(o.is_scope) != (n["k"] == "s"):
                raise _Mismatch()
            v = _V(o, o.name, path + o.name)
            pos[id(v)] = k
            at.objects.append(v)
            if n["k"] == "s":
                it2 = iter(o.objects)
                walk(n["kids"], inst, v, it2, path + o.name + ".")
                if next(it2, None) is not None:
                    raise _Mismatch()
            else:
                inst["defs"].append(v)
    try:
        top = iter(processed.objects)
        main = new_inst(0)
        walk(files[0]["nodes"], main, main["root"], top, "")
        if next(top, None) is not None:
            raise _Mismatch()
    except _Mismatch:
        return None, None
    return insts, pos


def master_for(paths):
    """untyped master declaring every path (nested scopes written out); None if a path is both a parameter and a scope"""
    tree = {}
    for p in paths:
        at = tree
        comps = p.split(".")
        for c in comps[:-1]:
            at = at.setdefault(c, {})
            if at is None:
                return None
        if isinstance(at.get(comps[-1], None), dict):
            return None
        at[comps[-1]] = None
    out = []

    def walk(t, ind):
        for k, v in t.items():
            if v is None:
                out.append("%s%s = None\n" % (ind, k))
            else:
                out.append("%s%s {\n" % (ind, k))
                walk(v, ind + "  ")
                out.append("%s}\n" % ind)

    def clash(t):
        return any(v is not None and (not v or clash(v)) for v in t.values())
    if clash(tree):
        return None
    walk(tree, "")
    return "".join(out)


def include_round(ctx, rng, base, serial, pending):
    files = gen_files(rng)
    p = rng.choice([0, 0, 0.15, 0.5])
    for f in files:
        if p:
            lay_out(rng, f["nodes"], p)
        f["text"] = render(f["nodes"])
    d = os.path.join(base, "%d" % (serial % 50))
    os.makedirs(d, exist_ok=True)
    for f in files:
        with open(os.path.join(d, f["name"]), "w") as fh:
            fh.write(f["text"])
    env = {k: rng.choice(["E" + k, "v w", ""]) for k in ENVN if rng.random() < 0.4}
    diff = rng.random() < 0.15
    texts = {f["name"]: f["text"] for f in files}
    case = {"files": texts, "main": files[0]["name"], "env": env, "diff": diff}
    ctx.case((tuple(sorted(texts.items())), tuple(sorted(env.items())), diff), nontrivial=any("$" in t for t in texts.values()))
    ctx.count("include_documents")
    with env_as(env):        # `include file` resolves its own words; nothing here depends on the environment
        processed = call_j(lambda: freephil.parse(file_name=os.path.join(d, files[0]["name"]), process_includes=True))
    if processed[0] != "ok":
        ctx.count("include_document_refused_" + str(processed[2] if len(processed) > 2 else processed[1]))
        return
    processed = processed[1]
    insts, pos = file_views(files, processed)
    if insts is None:
        ctx.count("include_processed_tree_differs_from_written_trees")   # not judged here (C13's subject)
        return
    ctx.count("include_instances", len(insts) - 1)
    # ---- each file on its own (no includes processed): the model's and the metamorphic reference's view of "the same source"
    alone, model = {}, {}
    for fi, f in enumerate(files):
        r = freephil.parse(file_name=os.path.join(d, f["name"]))
        ds = all_defs(r)
        keep = [j for j, x in enumerate(ds) if x.name != "include"]
        with env_as(env):
            a_env = [resolve_j(ds[j], diff) for j in keep]
        with env_as({}):
            a_none = [resolve_j(ds[j], diff) for j in keep]
            settled = [o[0] == "ok" for o in a_none] if not diff else [resolve_j(ds[j])[0] == "ok" for j in keep]
        alone[fi] = (a_env, a_none, settled)
        model[fi] = {"request": ["resolve", enc(f["text"]), [[enc(k), enc(v)] for k, v in env.items()], diff],
                     "case": dict(case, file=f["name"]), "n": len(ds), "keep": keep, "alone": a_env, "through": []}
        pending.append(model[fi])
    # ---- every definition of every inclusion instance, reached through the including file
    outs_of = {}
    for inst in insts:
        f = files[inst["file"]]
        with env_as(env):
            outs = [resolve_j(v.obj, diff) for v in inst["defs"]]
        for v, o in zip(inst["defs"], outs):
            outs_of[id(v.obj)] = o
        included = inst is not insts[0]
        tag = "included" if included else "including"
        for o in outs:
            ctx.count("outcome_%s_%s" % (tag, o[0] if o[0] == "ok" else o[2]))
        where = dict(case, file=f["name"])
        model[inst["file"]]["through"].append(([v.full_path() for v in inst["defs"]], outs))
        a_env, a_none, settled = alone[inst["file"]]
        if len(a_env) != len(outs):
            ctx.count("include_definition_count_differs")
            continue
        for v, o, ae, an, st in zip(inst["defs"], outs, a_env, a_none, settled):
            w = dict(where, definition=v.full_path())
            # the statement, read on the file's own text (names without an earlier definition in the file: not judged)
            fl = clauses(v, o, diff)
            if fl:
                # finding D70 ('''-quoted words are substituted): same narrow class as in the single-document stream
                cls = ["D70"] if d70_class(v) and not clauses(v, o, diff, single=("'",)) else None
                ctx.fail(w, "[%s file] %s" % (tag, fl), finding=cls)
                continue
            fl = lookup_clause(inst["root"], v, o, env, diff, pos, defined_only=True)
            if fl:
                ctx.fail(w, "[%s file] %s" % (tag, fl))
                continue
            # every reference is settled by earlier definitions of the file itself (it resolves there with no environment
            # at all): neither the including file nor the environment may then influence the result
            if st:
                ctx.count("include_definitions_settled_inside_their_file" if included else "including_definitions_settled")
                if "$" in "".join(x.value for x in v.words):
                    ctx.count("include_nontrivial_settled" if included else "including_nontrivial_settled")
                if o != an or ae != an:
                    ctx.fail(w, "[%s file] %s resolves to %r inside %s on its own (no environment), but to %r when the file "
                                "is read through %s: definitions outside its own source influence the result"
                                % (tag, v.full_path(), an, f["name"], o, files[0]["name"]))
        if f["dense"] and not diff:
            fl = dense_clause(inst["root"], f["nodes"], inst["defs"], outs, env, pos, defined_only=True)
            if fl:
                ctx.fail(dict(where, **fl[0]), "[%s file] %s" % (tag, fl[1]))
    # ---- the same through fetch: an untyped master declaring every path; the value fetched for a path is the
    #      resolution of the last active definition of that path in the combined source
    if diff:
        return
    matches, scope_paths = {}, set()

    def walk(sc, prefix):
        for x in sc.objects:
            if x.is_disabled:
                continue
            if x.is_scope:
                scope_paths.add(prefix + x.name)
                walk(x, prefix + x.name + ".")
            else:
                matches.setdefault(prefix + x.name, []).append(x)
    walk(processed, "")
    # 3 in 10: every path declared (one unresolvable matching definition then refuses the whole fetch); else only the
    # paths whose definitions all resolve, so that the fetch has a result to be judged
    declare_all = rng.random() < 0.3

    def usable(pth):
        comps = pth.split(".")
        if pth in scope_paths or any(".".join(comps[:k]) in matches for k in range(1, len(comps))):
            return False        # a name that is a scope here and a parameter there: a different refusal, not this property's
        return declare_all or all(id(m) in outs_of and outs_of[id(m)][0] == "ok" for m in matches[pth])
    paths = [pth for pth in matches if usable(pth)]
    matches = {pth: matches[pth] for pth in paths}
    mt = master_for(paths)
    if mt is None or not paths:
        ctx.count("include_fetch_skipped_nothing_to_declare")
        return
    master = freephil.parse(input_string=mt)
    with env_as(env):
        got = call_j(lambda: master.fetch(source=processed))
    ctx.count("include_fetch_" + ("ok" if got[0] == "ok" else str(got[2])))
    expect_err = [outs_of[id(m)] for ms in matches.values() for m in ms if id(m) in outs_of and outs_of[id(m)][0] != "ok"]
    if any(id(m) not in outs_of for ms in matches.values() for m in ms):
        ctx.count("include_fetch_skipped_unmapped")
        return
    ctx.count("include_fetch_judged")
    if got[0] != "ok":
        if not expect_err:
            ctx.fail(case, "fetch of the combined source raises %r although every matching definition resolves" % (got[1:],))
        return
    if expect_err:
        ctx.fail(case, "fetch of the combined source succeeds although a matching definition does not resolve: %r" % (expect_err[0],))
        return
    for pth, ms in matches.items():
        if not ms:
            continue
        r = got[1].get_without_substitution(pth)
        want = outs_of[id(ms[-1])]
        have = ["ok", [word_j(w)[:2] + [None] for w in r[0].words]] if len(r) == 1 and r[0].is_definition else ["?", len(r)]
        if have != want:
            ctx.fail(dict(case, definition=pth), "fetch gives %s = %r but the last definition of it in the combined source "
                                                 "resolves to %r" % (pth, have, want))
            return


def include_stream(ctx):
    import shutil
    rng = ctx.rng
    base = "/var/tmp/verif-c12-%d" % os.getpid()
    pending = []
    n = ctx.scale(400, 8000, 2000)
    try:
        for i in range(n):
            if ctx.time_left() < 20:
                ctx.notes.append("include stream stopped early on time budget")
                break
            include_round(ctx, rng, base, i, pending)
    finally:
        shutil.rmtree(base, ignore_errors=True)
    if ctx.mode == "impl-only":
        return
    # ---- correspondence: the model resolves each file's own text; the implementation's answers are those of the same
    #      definitions reached through the including file (and of the file parsed on its own)
    from common import run_model, same_outcome
    answers = run_model([q["request"] for q in pending])
    for q, a in zip(pending, answers):
        ctx.traces += 1
        if a[0] != "ok" or len(a[1]) != q["n"]:
            if a[0] == "parse-failed" and a[1][0] == "unsupported":
                ctx.unsupported += 1
            else:
                ctx.disagree("resolve-included", q["case"], a, q["alone"])
            continue
        m = [a[1][j] for j in q["keep"]]
        for names, outs in [(None, q["alone"])] + q["through"]:
            if len(outs) != len(m):
                ctx.disagree("resolve-included", q["case"], m, outs)
                break
            bad = [j for j in range(len(m)) if same_outcome(strip_lines(m[j]), outs[j]) is False]
            if bad:
                ctx.disagree("resolve-included", dict(q["case"], definition=names[bad[0]] if names else bad[0],
                                                      through_includer=names is not None), m[bad[0]], outs[bad[0]])
                break


def replay(payload):
    c = payload["failure"]["case"]
    print(c)
    if "files" in c:
        import shutil
        import tempfile
        d = tempfile.mkdtemp(prefix="verif-c12-replay", dir="/var/tmp")
        try:
            for name, text in c["files"].items():
                with open(os.path.join(d, name), "w") as fh:
                    fh.write(text)
            root = freephil.parse(file_name=os.path.join(d, c["main"]), process_includes=True)
            print(root.as_str())
            with env_as(c.get("env", {})):
                for x in all_defs(root):
                    print(x.full_path(), x.where_str, resolve_j(x, c.get("diff", False)))
        finally:
            shutil.rmtree(d, ignore_errors=True)
        return False
    root = freephil.parse(input_string=c["text"])
    with env_as(c.get("env", {})):
        for d in all_defs(root):
            print(d.full_path(), resolve_j(d, c.get("diff", False)))
    return False
