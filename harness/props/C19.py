"""C19 — printing filters show exactly what the requested levels allow."""
from common import freephil, enc, call_j, attr_j
from props import _lay, _fetch

LEVEL = "proof"
MODULE = "Phil.Props.C19"
LEVEL_TEXT = 'Lean theorems about the printer model: for trees with attributes and every expert setting, width, blank prefix AND attributes level the filtered text is the text of the pruned tree and parses to exactly that sub-tree (filtered_text_parses_to_subtree(_levels), prune_spec, visible_scope, negative_or_absent_shows_everything), what each attributes level shows (level0/1/2/3_shows_*), raising the level only adds (raising_level_only_adds, higher_level_reads_back_more), the tree re-parsed from any level is the same once attributes are ignored (any_level_reparses_to_same_tree), the prefix law for all trees (show_prefix family), printing fails exactly at two characterised sites (asStr_error_iff). Tied to /repo by a correspondence run of show over expert x attributes level x prefix x width; the oracle evaluates the three clauses on the implementation.'
LEVEL_NOTE = 'Prefix law on trees whose words contain no newline (physical lines inside a quoted value belong to the value). Deprecated definitions are hidden below level 3 by design.'
TECHNIQUE = 'Lean 4 theorems on the printer model (expert gate = prune, closed filtered round trip at every attributes level, prefix law) + differential correspondence'
RULE = ("layout-grammar trees with expert levels (unset, 0..4) on scopes and definitions at any depth incl. dotted scopes and "
        "disabled objects x expert_level {None,-1,0..5} x attributes_level {0..3} x prefix {'', '  ', '# ', '!x '} x widths; "
        "non-trivial = some object carries an expert level")
RULE += ("; impl-only stream 'reused': the same clauses on parsed objects that were USED between parsing and printing - merge masters "
         "(.multiple scopes / definitions, nested multiples, types, expert levels) and their sources, every clause evaluated right "
         "after parse() and again on the same objects after a cycle of calls that only read them: fetch(sources), fetch_diff, "
         "extract, format(python_object) with >= 0 instances per .multiple scope, clone, copy; the Lean model takes texts, a used "
         "object has no text of its own")
ASSUMPTIONS = ["trees for this property carry no .deprecated attribute (hidden below level 3 by design, see C01)"]


def pruned_sig(o, k, level):
    """signature of the sub-tree that expert level k shows"""
    if k is not None and k >= 0 and isinstance(o.expert_level, int) and o.expert_level > k:
        return None
    if o.is_definition:
        return _lay.sig(o, level)
    kids = [pruned_sig(c, k, level) for c in o.objects]
    if o.objects and o.objects[0].merge_names and all(x is None for x in kids):
        return None
    s = _lay.sig(o, level)
    s[4] = [x for x in kids if x is not None]
    return s


def attrs_at_level(o, a):
    out = []
    for n in o.attribute_names:
        v = getattr(o, n)
        shown = (a >= 1 and n in ("help", "alias") and v is not None) or (a >= 2 and v is not None) or a >= 3
        if isinstance(v, str) and shown:
            out.append(["s~", _lay.norm_ws(v)])
        else:
            out.append(attr_j(v) if shown else None)
    return out


def level_sig(o, a, reparsed):
    """structure + attributes as they must read back from a level-a print"""
    attrs = attrs_at_level(o, a) if not reparsed else attrs_at_level(o, 3)
    if o.is_definition:
        return ["d", o.name, bool(o.is_disabled), attrs, [(w.value, w.quote_token) for w in o.words]]
    return ["s", o.name, bool(o.is_disabled), attrs, [level_sig(c, a, reparsed) for c in o.objects]]


def check(root, k, a, p, w):
    try:
        s = root.as_str(expert_level=k, attributes_level=a, prefix="", print_width=w)
    except BaseException as e:
        return "printing raised %s: %s" % (type(e).__name__, str(e)[:100])
    try:
        r = freephil.parse(input_string=s)
    except BaseException as e:
        return "filtered text does not parse: %s" % str(e)[:150]
    # (a) expert gate: exactly the pruned sub-tree (attributes compared at the level printed)
    want = pruned_sig(root, k, 0)
    got = _lay.sig(r, 0)
    d = _lay.first_diff(want, got)
    if d:
        return "expert_level=%r: re-parsed tree is not the pruned tree: %s" % (k, d)
    # (b) attribute levels
    if k is None:
        d = _lay.first_diff(level_sig(root, a, False), level_sig(r, a, True))
        if d:
            return "attributes_level=%d: re-parsed attributes differ: %s" % (a, d)
    # (c) prefix law
    if p:
        try:
            sp = root.as_str(expert_level=k, attributes_level=a, prefix=p, print_width=w + len(p))
        except BaseException as e:
            return "printing with prefix raised %s" % type(e).__name__
        want_p = "".join(p + line + "\n" for line in s.split("\n")[:-1])
        if sp != want_p:
            return "prefix %r: output is not the unprefixed output (width reduced by %d) with the prefix on every line" % (p, len(p))
    return None


def has_class(root):
    found = set()

    def walk(o):
        if o.is_definition:
            for w in o.words[:-1]:
                if "\n" in w.value:
                    found.add("D6")
            for w in o.words:
                if w.quote_token is None and w.value == "\\":
                    found.add("D7")
        else:
            for c in o.objects:
                walk(c)
    walk(root)
    return sorted(found)


READ_ONLY_OPS = ("fetch", "extract", "format", "clone", "fetch_diff", "fetch_default", "format_default", "copy", "inner_format")


def work_cycle(ops, m, ss):
    """calls of the public API that take the parsed master `m` (and the parsed sources `ss`) as receiver / argument and
    return NEW objects; none of them is an edit of `m` or of a source.  Returns the names of the calls that completed."""
    done = []

    def step(name, f):
        try:
            r = f()
        except (RuntimeError, freephil.Sorry, ValueError, TypeError, AttributeError, KeyError, IndexError):
            return None          # refused input (e.g. a source value of the wrong type): that call did not happen
        done.append(name)
        return r

    w = po = None
    if "fetch" in ops:
        w = step("fetch", lambda: m.fetch(sources=ss))
    if w is not None and "extract" in ops:
        po = step("extract", lambda: w.extract())
    if po is not None and "format" in ops:
        step("format", lambda: m.format(python_object=po))
    if po is not None and "clone" in ops:
        step("clone", lambda: m.clone(po))
    if "fetch_diff" in ops:
        step("fetch_diff", lambda: m.fetch_diff(sources=ss))
    if "fetch_default" in ops:
        d = step("fetch_default", lambda: m.fetch())
        if d is not None and "format_default" in ops:
            step("format_default", lambda: m.format(python_object=d.extract()))
    if "copy" in ops:
        step("copy", lambda: m.copy())
    if po is not None and "inner_format" in ops:
        # the same on an inner scope of the master with its part of the python object
        for c in m.objects:
            if c.is_scope and not c.is_disabled and not c.multiple and "." not in c.name and hasattr(po, c.name):
                step("inner_format", lambda: c.format(python_object=getattr(po, c.name)))
                break
    return done


def settings(rng, root, n):
    mw = _lay.min_width(root)
    out = []
    for _ in range(n):
        out.append((rng.choice([None, None, -1, 0, 1, 2, 3, 4, 5]), rng.choice([0, 1, 2, 3]), rng.choice(["", "  ", "# ", "!x "]),
                    rng.choice([mw, mw + 5, 40 + mw, 79, 200])))
    return out


def reused(ctx, rng, i):
    """impl-only stream: every clause on parsed objects, right after parse() and again after a cycle of read-only calls"""
    tree, mt, srcs = _fetch.gen(rng, nested=i % 3 == 2, n_sources=rng.choice([1, 1, 2, 3]))
    try:
        m = freephil.parse(input_string=mt)
        ss = [freephil.parse(input_string=s) for s in srcs]
    except BaseException:
        ctx.count("reused_unparseable")
        return
    objs = [("master", mt, m)] + [("source %d" % j, s, o) for j, (s, o) in enumerate(zip(srcs, ss))]
    sets = {}
    for label, text, o in objs:
        # all four attribute levels at expert None (what clause (b) needs) plus random settings
        sets[label] = [(None, a, "", 79) for a in (0, 1, 2, 3)] + settings(rng, o, 3)
    case = {"master": mt, "sources": srcs}
    fresh_bad = set()
    for label, text, o in objs:
        for (k, a, p, w) in sets[label]:
            f = check(o, k, a, p, w)
            ctx.case((mt, tuple(srcs), label, "fresh", k, a, p, w), nontrivial=".expert_level" in text)
            if f:
                fresh_bad.add(label)
                ctx.fail(dict(case, object=label, after=[], expert=k, level=a, prefix=p, width=w),
                         "[%s, fresh from parse()] %s" % (label, f), finding=has_class(o), model_violates=None)
    ops = [o_ for o_ in READ_ONLY_OPS if rng.random() < 0.85]
    case["ops"] = ops
    done = work_cycle(ops, m, ss)
    ctx.count("reused_cycle")
    for d in done:
        ctx.count("reused_after_" + d)
    if any(n_.get("multiple") and n_["k"] == "s" and not n_["dis"] for n_ in tree) and "format" in done:
        ctx.count("reused_format_multiple_scope")
    for label, text, o in objs:
        if label in fresh_bad:
            continue
        for (k, a, p, w) in sets[label]:
            f = check(o, k, a, p, w)
            ctx.case((mt, tuple(srcs), label, tuple(done), k, a, p, w), nontrivial=".expert_level" in text)
            if f:
                ctx.fail(dict(case, object=label, after=done, expert=k, level=a, prefix=p, width=w),
                         "[%s printed again after %s] %s" % (label, "/".join(done) or "nothing", f),
                         finding=has_class(o), model_violates=None)
                break


def run(ctx):
    rng = ctx.rng
    import random
    rng_reused = random.Random(ctx.seed * 1000003 + 19)     # own stream: the base stream stays what it was
    for i in range(ctx.scale(300, 4000, 1000)):
        if ctx.time_left() < 40:
            ctx.notes.append("reused stream stopped early on time budget")
            break
        reused(ctx, rng_reused, i)
    n = ctx.scale(500, 15000, 3000)
    cases, reqs, impls = [], [], []
    for i in range(n):
        if ctx.time_left() < 25:
            ctx.notes.append("stopped early on time budget")
            break
        tree, text, _ = _lay.gen_case(rng, experts=True, multiline=False, off_regions=False)
        try:
            root = freephil.parse(input_string=text)
        except BaseException:
            ctx.count("unparseable")
            continue
        cls = has_class(root)
        mw = _lay.min_width(root)
        n_exp = text.count(".expert_level")
        for _ in range(4):
            k = rng.choice([None, None, -1, 0, 1, 2, 3, 4, 5])
            a = rng.choice([0, 1, 2, 3])
            p = rng.choice(["", "  ", "# ", "!x "])
            w = rng.choice([mw, mw + 5, 40 + mw, 79, 200])
            ctx.case((text, k, a, p, w), nontrivial=n_exp > 0)
            ctx.count("expert_%s" % k)
            ctx.count("level_%d" % a)
            f = check(root, k, a, p, w)
            ia = call_j(lambda: root.as_str(expert_level=k, attributes_level=a, prefix=p, print_width=w + len(p)), enc)
            cases.append({"text": text, "expert": k, "level": a, "prefix": p, "width": w, "fail": f, "cls": cls})
            reqs.append(["show", enc(text), a, w + len(p), k, enc(p)])
            impls.append(ia)
        if i % 150 == 0:
            ctx.sample({"text": text, "expert": k, "level": a, "prefix": p, "width": w})
        if len(reqs) >= 3000:
            flush(ctx, cases, reqs, impls)
            cases, reqs, impls = [], [], []
    flush(ctx, cases, reqs, impls)


def flush(ctx, cases, reqs, impls):
    if not reqs:
        return
    answers = [None] * len(reqs)
    if ctx.mode != "impl-only":
        answers = ctx.corr("show", [{k: c[k] for k in ("text", "expert", "level", "prefix", "width")} for c in cases], reqs, impls)
    for c, a, i in zip(cases, answers, impls):
        if c["fail"]:
            ctx.fail({k: c[k] for k in ("text", "expert", "level", "prefix", "width")}, c["fail"], finding=c["cls"],
                     model_violates=None if (a is None or a[0] in ('unsupported', 'parse-failed', 'type-failed')) else (a == i))


def replay(payload):
    c = payload["failure"]["case"]
    if "master" in c:
        m = freephil.parse(input_string=c["master"])
        ss = [freephil.parse(input_string=s) for s in c["sources"]]
        if c["after"]:
            work_cycle(c["ops"], m, ss)
        o = m if c["object"] == "master" else ss[int(c["object"].split()[1])]
        r = check(o, c["expert"], c["level"], c["prefix"], c["width"])
        print(repr(c["master"]), c["sources"], c["object"], "after", c["after"], "->", r)
        return r is None
    root = freephil.parse(input_string=c["text"])
    r = check(root, c["expert"], c["level"], c["prefix"], c["width"])
    print(repr(c["text"]), "->", r)
    return r is None
