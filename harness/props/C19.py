"""C19 — printing filters show exactly what the requested levels allow."""
from common import freephil, enc, call_j, attr_j
from props import _lay

LEVEL = "proof"
MODULE = "Phil.Props.C19"
LEVEL_TEXT = 'Lean theorems about the printer model: for trees with attributes and every expert setting, width and blank prefix the filtered text is the text of the pruned tree and parses to exactly that sub-tree (filtered_text_parses_to_subtree, prune_spec, visible_scope, negative_or_absent_shows_everything), the prefix law for all trees (show_prefix family, prefix_changes_nothing_else), attribute levels only add lines (attrs_level_mono). Tied to /repo by a correspondence run of show over expert x attributes level x prefix x width; the oracle evaluates the three clauses on the implementation (filtered text re-parses to the pruned tree, dotted and braced; attributes per level; line-wise prefix law).'
LEVEL_NOTE = 'Closed at attributes level 0; levels > 0 by monotonicity + correspondence. Prefix law on trees whose words contain no newline (physical lines inside a quoted value belong to the value).'
TECHNIQUE = 'Lean 4 theorems on the printer model (expert gate = prune, closed filtered round trip, prefix law, level monotonicity) + differential correspondence'
RULE = ("layout-grammar trees with expert levels (unset, 0..4) on scopes and definitions at any depth incl. dotted scopes and "
        "disabled objects x expert_level {None,-1,0..5} x attributes_level {0..3} x prefix {'', '  ', '# ', '!x '} x widths; "
        "non-trivial = some object carries an expert level")
ASSUMPTIONS = ["trees for this property carry no .deprecated attribute (hidden below level 3 by design, see C01)"]


def pruned_sig(o, k, level):
    """signature of the sub-tree that expert level k shows"""
    if k is not None and k >= 0 and isinstance(o.expert_level, int) and o.expert_level > k:
        return None
    if o.is_definition:
        return _lay.sig(o, level)
    kids = [pruned_sig(c, k, level) for c in o.objects]
    if o.objects and o.objects[0].merge_names and all(x is None for x in kids):
        return None
    s = _lay.sig(o, level)
    s[4] = [x for x in kids if x is not None]
    return s


def attrs_at_level(o, a):
    out = []
    for n in o.attribute_names:
        v = getattr(o, n)
        shown = (a >= 1 and n in ("help", "alias") and v is not None) or (a >= 2 and v is not None) or a >= 3
        if isinstance(v, str) and shown:
            out.append(["s~", _lay.norm_ws(v)])
        else:
            out.append(attr_j(v) if shown else None)
    return out


def level_sig(o, a, reparsed):
    """structure + attributes as they must read back from a level-a print"""
    attrs = attrs_at_level(o, a) if not reparsed else attrs_at_level(o, 3)
    if o.is_definition:
        return ["d", o.name, bool(o.is_disabled), attrs, [(w.value, w.quote_token) for w in o.words]]
    return ["s", o.name, bool(o.is_disabled), attrs, [level_sig(c, a, reparsed) for c in o.objects]]


def check(root, k, a, p, w):
    try:
        s = root.as_str(expert_level=k, attributes_level=a, prefix="", print_width=w)
    except BaseException as e:
        return "printing raised %s: %s" % (type(e).__name__, str(e)[:100])
    try:
        r = freephil.parse(input_string=s)
    except BaseException as e:
        return "filtered text does not parse: %s" % str(e)[:150]
    # (a) expert gate: exactly the pruned sub-tree (attributes compared at the level printed)
    want = pruned_sig(root, k, 0)
    got = _lay.sig(r, 0)
    d = _lay.first_diff(want, got)
    if d:
        return "expert_level=%r: re-parsed tree is not the pruned tree: %s" % (k, d)
    # (b) attribute levels
    if k is None:
        d = _lay.first_diff(level_sig(root, a, False), level_sig(r, a, True))
        if d:
            return "attributes_level=%d: re-parsed attributes differ: %s" % (a, d)
    # (c) prefix law
    if p:
        try:
            sp = root.as_str(expert_level=k, attributes_level=a, prefix=p, print_width=w + len(p))
        except BaseException as e:
            return "printing with prefix raised %s" % type(e).__name__
        want_p = "".join(p + line + "\n" for line in s.split("\n")[:-1])
        if sp != want_p:
            return "prefix %r: output is not the unprefixed output (width reduced by %d) with the prefix on every line" % (p, len(p))
    return None


def has_class(root):
    found = set()

    def walk(o):
        if o.is_definition:
            for w in o.words[:-1]:
                if "\n" in w.value:
                    found.add("D6")
            for w in o.words:
                if w.quote_token is None and w.value == "\\":
                    found.add("D7")
        else:
            for c in o.objects:
                walk(c)
    walk(root)
    return sorted(found)


def run(ctx):
    rng = ctx.rng
    n = ctx.scale(500, 15000, 3000)
    cases, reqs, impls = [], [], []
    for i in range(n):
        if ctx.time_left() < 25:
            ctx.notes.append("stopped early on time budget")
            break
        tree, text, _ = _lay.gen_case(rng, experts=True, multiline=False, off_regions=False)
        try:
            root = freephil.parse(input_string=text)
        except BaseException:
            ctx.count("unparseable")
            continue
        cls = has_class(root)
        mw = _lay.min_width(root)
        n_exp = text.count(".expert_level")
        for _ in range(4):
            k = rng.choice([None, None, -1, 0, 1, 2, 3, 4, 5])
            a = rng.choice([0, 1, 2, 3])
            p = rng.choice(["", "  ", "# ", "!x "])
            w = rng.choice([mw, mw + 5, 40 + mw, 79, 200])
            ctx.case((text, k, a, p, w), nontrivial=n_exp > 0)
            ctx.count("expert_%s" % k)
            ctx.count("level_%d" % a)
            f = check(root, k, a, p, w)
            ia = call_j(lambda: root.as_str(expert_level=k, attributes_level=a, prefix=p, print_width=w + len(p)), enc)
            cases.append({"text": text, "expert": k, "level": a, "prefix": p, "width": w, "fail": f, "cls": cls})
            reqs.append(["show", enc(text), a, w + len(p), k, enc(p)])
            impls.append(ia)
        if i % 150 == 0:
            ctx.sample({"text": text, "expert": k, "level": a, "prefix": p, "width": w})
        if len(reqs) >= 3000:
            flush(ctx, cases, reqs, impls)
            cases, reqs, impls = [], [], []
    flush(ctx, cases, reqs, impls)


def flush(ctx, cases, reqs, impls):
    if not reqs:
        return
    answers = [None] * len(reqs)
    if ctx.mode != "impl-only":
        answers = ctx.corr("show", [{k: c[k] for k in ("text", "expert", "level", "prefix", "width")} for c in cases], reqs, impls)
    for c, a, i in zip(cases, answers, impls):
        if c["fail"]:
            ctx.fail({k: c[k] for k in ("text", "expert", "level", "prefix", "width")}, c["fail"], finding=c["cls"],
                     model_violates=None if (a is None or a[0] in ('unsupported', 'parse-failed', 'type-failed')) else (a == i))


def replay(payload):
    c = payload["failure"]["case"]
    root = freephil.parse(input_string=c["text"])
    r = check(root, c["expert"], c["level"], c["prefix"], c["width"])
    print(repr(c["text"]), "->", r)
    return r is None
