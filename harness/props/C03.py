"""C03 — quote -> tokenize is the identity."""
import itertools

from common import freephil, tokenizer, enc, dec, word_j, obj_j, call_j, quote_tag

LEVEL = "proof"
LEVEL_TEXT = "Lean theorems, all strings of every length: the quoted scanner inverts escape_python_str for single and triple styles (scanQ_escape_single/triple), one word-iterator step on quote(q,s)++rest returns exactly (s,q), leaves rest untouched and counts the newlines (next_word_of_quoted), tokenize_value_literal(quote(q,s)) = [(s,q)] (tokenize_quote), str(word) = quoted text (str_word), and the whole document 'a = <quoted> newline b = 1' parses to the two definitions (doc_quote); arbitrary following definitions: C01 print_parse_any_width. Tied to /repo by a correspondence run (quote, tokenize_value_literal, parse) over all strings <= 3 (quick) / <= 4 (thorough) over the 12 tokenizer classes, all strings <= 2/3 over those plus 9 exotic characters (CR TAB VT FF NEL LS NUL SUB BOM), plus random long strings; the oracle evaluates the three observations of the property on the implementation."
LEVEL_NOTE = 'Trusted: Lean kernel (+propext, Quot.sound), the hand-written model of tokenizer.py being the code (checked by the correspondence run), CPython str.replace/join. File input (universal newlines of open()) is outside the property (it speaks of strings).'
TECHNIQUE = 'Lean 4 proof by induction on the string (scanner inverts escape) + differential correspondence, bounded-exhaustive + random'
DESIGN_REF = "DESIGN.md §5 C03"
MODULE = "Phil.Props.C03"
RULE = ("strings over the 12 tokenizer character classes (plus 9 exotic characters CR TAB VT FF NEL LS NUL SUB BOM in a second bounded-exhaustive tier) {' \" \\ newline blank $ # { } ; = ordinary}: "
        "bounded-exhaustive up to a length bound, random beyond, x 4 quote styles x {value literal, definition in a "
        "document}; a case is non-trivial when the string is non-empty; distinct = distinct (string, style)")
ASSUMPTIONS = ["str.replace / str.join of CPython", "isspace table validated separately (C02 thorough)"]
CLASSES = ["'", '"', "\\", "\n", " ", "$", "#", "{", "}", ";", "=", "a"]
STYLES = ["'", '"', "'''", '"""']
# characters that are ordinary for the tokenizer but that some layer (newline normalisation, str.splitlines, C strings, terminals)
# could treat specially: the property quantifies over EVERY string, so they get their own bounded-exhaustive tier
EXOTIC = ["\r", "\t", "\x0b", "\x0c", "\x85", "\u2028", "\x00", "\x1a", "\ufeff"]


def observe(q, s):
    """the three observations of the property on the implementation; returns failure text or None"""
    quoted = tokenizer.quote_python_str(quote_token=q, string=s)
    try:
        ws = freephil.tokenize_value_literal(input_string=quoted, source_info=None)
    except Exception as e:
        return "tokenize_value_literal raised %s: %s" % (type(e).__name__, e)
    if len(ws) != 1 or ws[0].value != s or ws[0].quote_token != q:
        return "tokenize_value_literal gave %r" % [(w.value, w.quote_token) for w in ws]
    if str(ws[0]) != quoted:
        return "str(word) = %r differs from quoted text %r" % (str(ws[0]), quoted)
    doc = "a = " + quoted + "\nb = 1"
    try:
        objs = freephil.parse(input_string=doc).objects
    except Exception as e:
        return "parse of document raised %s: %s" % (type(e).__name__, e)
    got = [(o.name, [(w.value, w.quote_token) for w in o.words]) for o in objs]
    if got != [("a", [(s, q)]), ("b", [("1", None)])]:
        return "document parsed to %r" % (got,)
    return None


def impl_answers(q, s):
    quoted = tokenizer.quote_python_str(quote_token=q, string=s)
    a1 = ["ok", enc(quoted)]
    a2 = call_j(lambda: freephil.tokenize_value_literal(input_string=quoted, source_info=None),
                lambda ws: [word_j(w) for w in ws])
    a3 = call_j(lambda: freephil.parse(input_string="a = " + quoted + "\nb = 1"), obj_j)
    return quoted, [a1, a2, a3]


def requests(q, s, quoted):
    return [["quote", quote_tag(q), enc(s)], ["tokv", enc(quoted)], ["parse", enc("a = " + quoted + "\nb = 1")]]


def strings(ctx):
    n_ex = ctx.scale(3, 5, 4)
    n_corr = ctx.scale(3, 4, 3)
    for n in range(n_ex + 1):
        for t in itertools.product(CLASSES, repeat=n):
            yield "".join(t), n <= n_corr
    n_exo = ctx.scale(2, 3, 3)
    for n in range(1, n_exo + 1):
        for t in itertools.product(CLASSES + EXOTIC, repeat=n):
            if any(c in EXOTIC for c in t):
                yield "".join(t), n <= 2
    ctx.exhaustive = True
    ctx.notes.append("exhaustive over all strings of length <= %d over 12 classes (correspondence <= %d) and of length <= %d over "
                     "the 12 classes + %d exotic characters (CR, TAB, VT, FF, NEL, LS, NUL, SUB, BOM)" % (n_ex, n_corr, n_exo, len(EXOTIC)))
    rng = ctx.rng
    alphabet = CLASSES + EXOTIC + ["b", "é", "\r\n", "\\\\", "\\'", '\\"', "'''", '"""', "\\\n"]
    for _ in range(ctx.scale(3000, 100000, 20000)):
        k = rng.choice([1, 2, 5, 9, 20, 60, 300])
        yield "".join(rng.choice(alphabet) for _ in range(rng.randint(0, k))), True


def run(ctx):
    cases, reqs, impls = [], [], []
    for s, do_corr in strings(ctx):
        if ctx.time_left() < 20:
            ctx.notes.append("stopped early on time budget")
            ctx.exhaustive = False
            break
        for q in STYLES:
            ctx.case((q, s), nontrivial=len(s) > 0)
            ctx.count("len_%s" % (len(s) if len(s) < 6 else "6+"))
            f = observe(q, s)
            if f is not None:
                ctx.fail({"quote": q, "string": s}, f)
            if do_corr and ctx.mode != "impl-only":
                quoted, ia = impl_answers(q, s)
                for r, a in zip(requests(q, s, quoted), ia):
                    cases.append({"quote": q, "string": s, "op": r[0]})
                    reqs.append(r)
                    impls.append(a)
            if len(s) == 3 and q == '"""':
                ctx.sample({"quote": q, "string": s, "quoted": tokenizer.quote_python_str(q, s)})
        if len(reqs) > 60000:
            ctx.corr("quote/tokv/parse", cases, reqs, impls)
            cases, reqs, impls = [], [], []
    if reqs:
        ctx.corr("quote/tokv/parse", cases, reqs, impls)


def replay(payload):
    c = payload["failure"]["case"]
    return observe(c["quote"], c["string"]) is None


def shrink(f):
    c = f["case"]
    q, s = c["quote"], c["string"]
    changed = True
    while changed:
        changed = False
        for i in range(len(s)):
            t = s[:i] + s[i + 1:]
            if observe(q, t) is not None:
                s, changed = t, True
                break
    return {"case": {"quote": q, "string": s}, "what": observe(q, s), "finding": None, "model_violates": None}
