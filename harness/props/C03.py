"""C03 — quote -> tokenize is the identity."""
import itertools

from common import freephil, tokenizer, enc, dec, word_j, obj_j, call_j, quote_tag

LEVEL = "proof"
LEVEL_TEXT = "Lean theorems, all strings of every length: the quoted scanner inverts escape_python_str for single and triple styles (scanQ_escape_single/triple), one word-iterator step on quote(q,s)++rest returns exactly (s,q), leaves rest untouched and counts the newlines (next_word_of_quoted), tokenize_value_literal(quote(q,s)) = [(s,q)] (tokenize_quote), str(word) = quoted text (str_word), the whole document 'a = <quoted> newline b = 1' (doc_quote); escape_python_str / quote_python_str are REGENERATED from the Python source on every run and proved equal to the model's escape / quoteStr for all strings (escape_python_str_eq, quote_python_str_eq). Tied to /repo by a correspondence run (quote, tokenize_value_literal, parse) over all strings <= 3 (quick) / <= 4 (thorough) over the 12 tokenizer classes, all strings <= 2/3 over those plus 9 exotic characters, plus random long strings; the oracle evaluates the three observations of the property on the implementation."
LEVEL_NOTE = 'Trusted: Lean kernel (+propext, Quot.sound), the translator for the leaf functions and the hand-written model of the tokenizer loop (checked by the correspondence run), CPython str.replace/join. File input (universal newlines of open()) is outside the property (it speaks of strings).'
TECHNIQUE = 'Lean 4 proof by induction on the string (scanner inverts escape) + escape/quote translated from the source + differential correspondence, bounded-exhaustive + random'
DESIGN_REF = "DESIGN.md §5 C03"
MODULE = "Phil.Props.C03"
RULE = ("strings over the 12 tokenizer character classes (plus 9 exotic characters CR TAB VT FF NEL LS NUL SUB BOM in a second bounded-exhaustive tier) {' \" \\ newline blank $ # { } ; = ordinary}: "
        "bounded-exhaustive up to a length bound, random beyond, x 4 quote styles x {value literal, definition in a "
        "document}; a case is non-trivial when the string is non-empty; distinct = distinct (string, style); plus an impl-only "
        "stream of operation sequences: batches of (style, string) evaluated 2-4 times in one process through word_iterator / "
        "tokenize_value_literal (3 source_info values) / parse, every returned word edited in place (value, quote_token) between "
        "the evaluations - a later tokenization of the same text must still return the original string and style")
ASSUMPTIONS = ["str.replace / str.join of CPython", "isspace table validated separately (C02 thorough)"]
CLASSES = ["'", '"', "\\", "\n", " ", "$", "#", "{", "}", ";", "=", "a"]
STYLES = ["'", '"', "'''", '"""']
# characters that are ordinary for the tokenizer but that some layer (newline normalisation, str.splitlines, C strings, terminals)
# could treat specially: the property quantifies over EVERY string, so they get their own bounded-exhaustive tier
EXOTIC = ["\r", "\t", "\x0b", "\x0c", "\x85", "\u2028", "\x00", "\x1a", "\ufeff"]


def observe(q, s):
    """the three observations of the property on the implementation; returns failure text or None"""
    quoted = tokenizer.quote_python_str(quote_token=q, string=s)
    try:
        ws = freephil.tokenize_value_literal(input_string=quoted, source_info=None)
    except Exception as e:
        return "tokenize_value_literal raised %s: %s" % (type(e).__name__, e)
    if len(ws) != 1 or ws[0].value != s or ws[0].quote_token != q:
        return "tokenize_value_literal gave %r" % [(w.value, w.quote_token) for w in ws]
    if str(ws[0]) != quoted:
        return "str(word) = %r differs from quoted text %r" % (str(ws[0]), quoted)
    doc = "a = " + quoted + "\nb = 1"
    try:
        objs = freephil.parse(input_string=doc).objects
    except Exception as e:
        return "parse of document raised %s: %s" % (type(e).__name__, e)
    got = [(o.name, [(w.value, w.quote_token) for w in o.words]) for o in objs]
    if got != [("a", [(s, q)]), ("b", [("1", None)])]:
        return "document parsed to %r" % (got,)
    return None


def impl_answers(q, s):
    quoted = tokenizer.quote_python_str(quote_token=q, string=s)
    a1 = ["ok", enc(quoted)]
    a2 = call_j(lambda: freephil.tokenize_value_literal(input_string=quoted, source_info=None),
                lambda ws: [word_j(w) for w in ws])
    a3 = call_j(lambda: freephil.parse(input_string="a = " + quoted + "\nb = 1"), obj_j)
    return quoted, [a1, a2, a3]


def requests(q, s, quoted):
    return [["quote", quote_tag(q), enc(s)], ["tokv", enc(quoted)], ["parse", enc("a = " + quoted + "\nb = 1")]]


def strings(ctx):
    n_ex = ctx.scale(3, 5, 4)
    n_corr = ctx.scale(3, 4, 3)
    for n in range(n_ex + 1):
        for t in itertools.product(CLASSES, repeat=n):
            yield "".join(t), n <= n_corr
    n_exo = ctx.scale(2, 3, 3)
    for n in range(1, n_exo + 1):
        for t in itertools.product(CLASSES + EXOTIC, repeat=n):
            if any(c in EXOTIC for c in t):
                yield "".join(t), n <= 2
    ctx.exhaustive = True
    ctx.notes.append("exhaustive over all strings of length <= %d over 12 classes (correspondence <= %d) and of length <= %d over "
                     "the 12 classes + %d exotic characters (CR, TAB, VT, FF, NEL, LS, NUL, SUB, BOM)" % (n_ex, n_corr, n_exo, len(EXOTIC)))
    rng = ctx.rng
    alphabet = CLASSES + EXOTIC + ["b", "é", "\r\n", "\\\\", "\\'", '\\"', "'''", '"""', "\\\n"]
    for _ in range(ctx.scale(3000, 100000, 20000)):
        k = rng.choice([1, 2, 5, 9, 20, 60, 300])
        yield "".join(rng.choice(alphabet) for _ in range(rng.randint(0, k))), True


# ---- repeated evaluation with in-place edits of the words handed out (impl-only stream) -------------------------------------
# The property quantifies over every string, hence also over every string that was ALREADY tokenized earlier in the process:
# tokenization must be a function of the text alone. A word returned by an entry point is the caller's own object
# (word.value / word.quote_token are plain public attributes; parser.py itself rewrites word.value in place), so the stream
# evaluates the property for a batch of (style, string), edits every returned word in place, and evaluates the same batch
# again - through every tokenizing entry point and with several source_info values. The Lean model is a pure function of the
# text and has no notion of object identity, so these sequences go to the oracle only (counted as impl_only_repeat_*).
SOURCE_INFOS = [None, "cmdline", "file.phil"]


def _ed_value(w, i):
    w.value = "checked: " + w.value


def _ed_lead(w, i):  # what parser.py does to a lead word (drops the first character)
    w.value = w.value[1:]


def _ed_empty(w, i):
    w.value = ""


def _ed_quote(w, i):
    w.quote_token = STYLES[(STYLES.index(w.quote_token) + 1 + i % 3) % 4] if w.quote_token in STYLES else "'"


def _ed_unquote(w, i):
    w.quote_token = None


def _ed_both(w, i):
    _ed_quote(w, i)
    w.value = w.value + "\\'\"\n"


EDITS = {"value": _ed_value, "lead": _ed_lead, "empty": _ed_empty, "quote": _ed_quote, "unquote": _ed_unquote, "both": _ed_both}


def entries(quoted, source_info):
    """every tokenizing entry point on the quoted text: (name, thunk giving (words of the quoted text, all words handed out))"""
    def wi():
        ws = list(tokenizer.word_iterator(input_string=quoted))
        return ws, ws

    def tokv():
        ws = freephil.tokenize_value_literal(input_string=quoted, source_info=source_info)
        return ws, ws

    def doc():
        objs = freephil.parse(input_string="a = " + quoted + "\nb = 1", source_info=source_info).objects
        got = [(o.name, [(w.value, w.quote_token) for w in o.words]) for o in objs]
        if [n for n, _ in got] != ["a", "b"] or got[1][1] != [("1", None)]:
            raise AssertionError("document parsed to %r" % (got,))
        return objs[0].words, [w for o in objs for w in o.words]
    return [("word_iterator", wi), ("tokenize_value_literal", tokv), ("parse", doc)]


def evaluate_once(q, s, source_info, handed_out):
    """the property as stated for one (style, string) through every entry point; returns failure text or None"""
    quoted = tokenizer.quote_python_str(quote_token=q, string=s)
    for name, thunk in entries(quoted, source_info):
        try:
            ws, every = thunk()
        except Exception as e:
            return "%s raised %s: %s" % (name, type(e).__name__, e)
        handed_out.extend(every)
        if len(ws) != 1 or ws[0].value != s or ws[0].quote_token != q:
            return "%s gave %r, required [(%r, %r)]" % (name, [(w.value, w.quote_token) for w in ws], s, q)
        if str(ws[0]) != quoted:
            return "%s: str(word) = %r differs from quoted text %r" % (name, str(ws[0]), quoted)
    return None


def observe_repeated(items, edits, source_info):
    """evaluate the batch, then for each edit: apply it in place to every word handed out by the previous evaluation and
    evaluate the batch again. Returns (index of the failing item, round, failure text) or None"""
    handed_out = []
    for r in range(len(edits) + 1):
        if r > 0:
            for i, w in enumerate(handed_out):
                EDITS[edits[r - 1]](w, i)
            handed_out = []
        for k, (q, s) in enumerate(items):
            f = evaluate_once(q, s, source_info, handed_out)
            if f is not None:
                return k, r, f
    return None


def repeat_what(r, edits, f):
    if r == 0:
        return "first evaluation: " + f
    return "evaluation %d of the same text, after the words returned earlier were edited in place (%s): %s" % (
        r + 1, ", ".join(edits[:r]), f)


def repeat_case(items, edits, source_info, k):
    return {"stream": "repeat", "items": [[q, s] for q, s in items], "edits": list(edits), "source_info": source_info,
            "quote": items[k][0], "string": items[k][1]}


def repeated_stream(ctx):
    rng = ctx.rng
    alphabet = CLASSES + EXOTIC + ["b", "\\\\", "\\'", 3 * "'", 3 * '"']
    pool = ["".join(t) for n in range(3) for t in itertools.product(CLASSES, repeat=n)]
    for b in range(ctx.scale(60, 600, 300)):
        if ctx.time_left() < 30:
            ctx.notes.append("repeated-evaluation stream stopped early on time budget")
            break
        items = []
        for _ in range(rng.choice([1, 1, 2, 8, 40])):
            if rng.random() < 0.5:
                s = rng.choice(pool)
            else:
                s = "".join(rng.choice(alphabet) for _ in range(rng.randint(0, rng.choice([1, 3, 8, 40]))))
            items.append((rng.choice(STYLES), s))
        if rng.random() < 0.3:  # the same text more than once inside one batch
            items.append(items[0])
        edits = [rng.choice(sorted(EDITS)) for _ in range(rng.choice([1, 1, 2, 3]))]
        source_info = SOURCE_INFOS[b % len(SOURCE_INFOS)]
        for q, s in items:
            ctx.case(("repeat", q, s, tuple(edits), source_info), nontrivial=len(s) > 0)
        ctx.count("impl_only_repeat_batches")
        ctx.count("impl_only_repeat_evaluations", len(items) * (len(edits) + 1))
        res = observe_repeated(items, edits, source_info)
        if res is not None:
            k, r, f = res
            ctx.fail(repeat_case(items, edits, source_info, k), repeat_what(r, edits, f))
    ctx.notes.append("impl-only stream: %d batches of (style, string) evaluated repeatedly in one process through word_iterator / "
                     "tokenize_value_literal / parse, the returned words edited in place between the evaluations"
                     % ctx.counts.get("impl_only_repeat_batches", 0))


def run(ctx):
    repeated_stream(ctx)
    cases, reqs, impls = [], [], []
    for s, do_corr in strings(ctx):
        if ctx.time_left() < 20:
            ctx.notes.append("stopped early on time budget")
            ctx.exhaustive = False
            break
        for q in STYLES:
            ctx.case((q, s), nontrivial=len(s) > 0)
            ctx.count("len_%s" % (len(s) if len(s) < 6 else "6+"))
            f = observe(q, s)
            if f is not None:
                ctx.fail({"quote": q, "string": s}, f)
            if do_corr and ctx.mode != "impl-only":
                quoted, ia = impl_answers(q, s)
                for r, a in zip(requests(q, s, quoted), ia):
                    cases.append({"quote": q, "string": s, "op": r[0]})
                    reqs.append(r)
                    impls.append(a)
            if len(s) == 3 and q == '"""':
                ctx.sample({"quote": q, "string": s, "quoted": tokenizer.quote_python_str(q, s)})
        if len(reqs) > 60000:
            ctx.corr("quote/tokv/parse", cases, reqs, impls)
            cases, reqs, impls = [], [], []
    if reqs:
        ctx.corr("quote/tokv/parse", cases, reqs, impls)


def replay(payload):
    c = payload["failure"]["case"]
    if c.get("stream") == "repeat":
        return observe_repeated([tuple(x) for x in c["items"]], c["edits"], c["source_info"]) is None
    return observe(c["quote"], c["string"]) is None


def fresh_result(items, edits, source_info):
    """observe_repeated in a FRESH interpreter: a failing input of this stream is a sequence of calls starting from process
    start (that is how --replay runs it), so a candidate must not be judged in a process whose earlier calls may have left
    state behind"""
    import json, os, subprocess, sys
    here = os.path.dirname(os.path.abspath(__file__))
    code = ("import sys, json; sys.path[:0] = [%r, %r]; import C03; d = json.load(sys.stdin); "
            "print(json.dumps(C03.observe_repeated([tuple(x) for x in d[0]], d[1], d[2])))" % (os.path.dirname(here), here))
    out = subprocess.run([sys.executable, "-c", code], input=json.dumps([[list(x) for x in items], edits, source_info]),
                         capture_output=True, text=True, timeout=60)
    return json.loads(out.stdout.strip().splitlines()[-1])


def shrink_repeated(f):
    c = f["case"]
    items, edits, si = [tuple(x) for x in c["items"]], list(c["edits"]), c["source_info"]
    budget = [60]

    def fails(it, ed):
        if budget[0] <= 0:
            return False
        budget[0] -= 1
        return fresh_result(it, ed, si) is not None
    if not fails(items, edits):  # needs the earlier calls of the run as well: keep as found
        return f
    changed = True
    while changed:
        changed = False
        for i in range(len(items)):  # drop items
            t = items[:i] + items[i + 1:]
            if t and fails(t, edits):
                items, changed = t, True
                break
        if changed:
            continue
        for i in range(len(edits)):  # drop edits
            t = edits[:i] + edits[i + 1:]
            if fails(items, t):
                edits, changed = t, True
                break
        if changed:
            continue
        for k, (q, s) in enumerate(items):  # shorten strings
            for i in range(len(s)):
                t = items[:k] + [(q, s[:i] + s[i + 1:])] + items[k + 1:]
                if fails(t, edits):
                    items, changed = t, True
                    break
            if changed:
                break
    k, r, what = fresh_result(items, edits, si)
    return {"case": repeat_case(items, edits, si, k), "what": repeat_what(r, edits, what), "finding": None,
            "model_violates": None}


def shrink(f):
    c = f["case"]
    if c.get("stream") == "repeat":
        return shrink_repeated(f)
    q, s = c["quote"], c["string"]
    changed = True
    while changed:
        changed = False
        for i in range(len(s)):
            t = s[:i] + s[i + 1:]
            if observe(q, t) is not None:
                s, changed = t, True
                break
    return {"case": {"quote": q, "string": s}, "what": observe(q, s), "finding": None, "model_violates": None}
