"""C17 — operations are pure: inputs unchanged, results repeatable, copies faithful."""
import contextlib
import copy
import io
import pickle

import mgen
from common import freephil, enc, tokenizer, AutoT, obj_j, err_j
from props import _fetch, _heap

LEVEL = "proof"
MODULE = "Phil.Props.C17"
EXPLANATION = ("Purity is about object identity and mutation, which a functional model does not exhibit; the Lean part proves the "
               "lifting on an effect model: if every call's assignments stay within a summary that writes at most the .tmp marks "
               "of long-lived objects, the observable state of master and sources is unchanged after ANY finite history "
               "(history_pure), assignments on fresh objects are local (field_assignment_local), and an assignment through a "
               "shared object leaks (shared_object_assignment_leaks, the mechanism of finding D21). The summaries are validated, not "
               "proved: the harness snapshots every slot of every reachable scope/definition/word object (with an identity map) "
               "around every call of random histories and checks writes within summary, unchanged prints, equal repeated "
               "results, and faithful, disjoint copies. Tie to the functional model: after every history the long-lived master and "
               "sources are merged once more and the result (tree, unused list, extracted values) is compared with the Lean "
               "fetch model applied to the ORIGINAL texts - a function of its inputs, so 'repeatable and inputs unchanged' "
               "is checked against one fixed mathematical value rather than against an earlier run.")
LEVEL_TEXT = "Lean theorems about an object-identity (heap) model of copy / customized_copy / deepcopy / pickle: deepcopy is total on every closed heap and every parsed document's heap is well-formed (deepcopy_total, heapOfText_wf, deepcopy_of_parsed_document); the deep copy denotes the same tree, consists of new objects only, every child of a copied scope has that copy as parent, no existing cell is written and ANY later history of field assignments to the copy leaves every original unchanged (deepcopy_isomorphic_total, _disjoint_total, _children_linked_total, _assign_frame_total); a shallow copy is one new cell sharing the child objects and assignments to its fields leave the original unchanged (copy_shares, copy_assign_frame); the template-copy step of fetch shares exactly the master's children (fetchTemplate_* = finding D21 stated positively); effect-summary lifting history_pure / call_frame. The heap model is tied to /repo by a correspondence run on identity graphs (id()-based) of real objects after each copy operation on masters and fetch results; purity of every API call is validated by slot snapshots around random call histories, incl. parses under three converter registries and a SHARED argument interpreter compared with fresh ones; the fetch of the long-lived objects after every history is compared with the fetch model on the original texts."
LEVEL_NOTE = "copies, fetch, fetch_diff, format, clone, resolve_variables and extraction have frame / sharing theorems on the heap model (fetchH_frame, fetchDiffH_frame, formatH_frame, cloneH_frame, resolveVarsH_frame, extract_frame), tied to the real objects by identity-graph correspondence; the abstraction theorem heap -> pure model is proved for fetch (fetchH_abs), by correspondence for diff / format; purity of the argument interpreter and whole-history effect summaries are validated per call (slot snapshots), the lifting to all histories is proved. CPython's recursion limit (deepcopy beyond ~200 nested scopes) is outside the unbounded-stack model. Known finding D21."
TECHNIQUE = 'Lean 4 theorems on a heap (object identity) model + identity-graph correspondence + run-time validation of per-call write/share summaries'
RULE = ("masters and source lists x histories of 5-25 API calls (fetch with/without tracking, fetch_diff, extract, format, clone, "
        "as_str at every level, argument interpretation, resolve, pickle/deepcopy/copy round trips, field assignments on "
        "results and shallow copies, in-place edits of deep copies) with a snapshot of every long-lived object after every step; "
        "one argument interpreter object per master, used all through the history and then for a dense history of 4-12 "
        "process(arg=) / process(args=) / process_and_fetch calls and copies of the used interpreter (names that several "
        "parameters match favoured, with and without home scope), every answer compared with a fresh interpreter's and, for "
        "process(arg=), with the argument-interpreter model; "
        "non-trivial = history has a fetch and a later repeated call")
ASSUMPTIONS = ["observable state of an object = all slots except tmp"]
SLOTS_SKIP = {"tmp"}


def reach(root, out=None):
    """id -> object for every scope/definition/word reachable from root (children and words only)"""
    out = {} if out is None else out
    if id(root) in out:
        return out
    out[id(root)] = root
    if isinstance(root, freephil.scope):
        for c in root.objects:
            reach(c, out)
    elif isinstance(root, freephil.definition):
        for w in root.words:
            out[id(w)] = w
    return out


def slot_snapshot(objs):
    """{id: {slot: repr-ish}} excluding tmp"""
    snap = {}
    for i, o in objs.items():
        d = {}
        for s in o.__slots__:
            if s in SLOTS_SKIP:
                continue
            v = getattr(o, s, None)
            if isinstance(v, list):
                d[s] = ("list", id(v), tuple(id(x) for x in v))
            elif isinstance(v, (freephil.scope, freephil.definition)):
                d[s] = ("obj", id(v))
            elif v is None or isinstance(v, (str, int, bool, float)):
                d[s] = ("v", v)
            else:
                d[s] = ("o", id(v), str(v))
        snap[i] = d
    return snap


def diff_snap(a, b):
    for i in a:
        if a[i] != b.get(i):
            for s in a[i]:
                if a[i][s] != b.get(i, {}).get(s):
                    return i, s
    return None


class _kilo_int_converters:
    """a project-specific `int` (accepts a `k` suffix, prints as int(kilo)): registries may redefine built-in type names"""
    phil_type = "int"

    def __init__(self, **kw):
        pass

    def __str__(self):
        return "int(kilo)"

    def from_words(self, words, master):
        t = words[0].value
        if t.lower() in ("none", "auto"):
            return None
        return int(float(t[:-1]) * 1000) if t.endswith("k") else int(float(t))

    def as_words(self, python_object, master):
        from freephil import tokenizer as tk
        return [tk.word(value="None" if python_object is None else str(python_object))]


class _tagged_str_converters(_kilo_int_converters):
    phil_type = "str"

    def __str__(self):
        return "str(tagged)"

    def from_words(self, words, master):
        return "<" + " ".join(w.value for w in words) + ">"


REGISTRIES = {
    "default": None,
    "kilo_int": freephil.extended_converter_registry(additional_converters=[_kilo_int_converters]),
    "tagged_str": freephil.extended_converter_registry(additional_converters=[_tagged_str_converters]),
}
KEEP_ALIVE = []      # parse results stay referenced for the whole run (caches keyed by weak references must not depend on the collector)


# ---- argument interpretation on ONE shared interpreter object -------------------------------------------------------
# `master.command_line_argument_interpreter()` returns an object that applications keep and feed many arguments (it caches
# what it computed from the master). The property: its answers are a function of (master, home scope, argument) - the same
# as a FRESH interpreter's, whatever was asked before, in whatever order.

def interp_outcome(f, raw=None):
    """comparable result of an interpreter call: printed scopes (most verbose level), the remaining arguments, what the
    call printed (the tie-break warning), or the refusal with its full message; raw collects the result object / exception"""
    buf = io.StringIO()
    try:
        with contextlib.redirect_stdout(buf):
            r = f()
    except (Exception, freephil.Sorry) as e:
        if raw is not None:
            raw.append(e)
        return ("refused", type(e).__name__, str(e), buf.getvalue())
    if raw is not None:
        raw.append(r)
    if isinstance(r, tuple):
        return ("ok", r[0].as_str(attributes_level=3), [str(x) for x in r[1]], buf.getvalue())
    if isinstance(r, list):
        return ("ok", [x.as_str(attributes_level=3) for x in r], buf.getvalue())
    return ("ok", r.as_str(attributes_level=3), buf.getvalue())


def interp_names(rng, tps):
    """argument names for a master with parameter paths tps: (all candidate names, those contained in >= 2 paths)"""
    names = set()
    for p in tps:
        comps = p.split(".")
        for j in range(len(comps)):
            names.add(".".join(comps[j:]))                       # suffixes on a component boundary (leaf name, ...)
        j = rng.randrange(len(p))
        names.add(p[j:].strip(".") or p)                          # a suffix from any character
        k = rng.randrange(len(p))
        names.add(p[k:rng.randint(k + 1, len(p))].strip(".") or p)  # a substring
    names = sorted(names)
    return names, [n for n in names if sum(1 for p in tps if n in p) >= 2]


def interp_pool(rng, tree, tps):
    """3-7 argument texts; names that several parameters match (decided by the expert-level tie-break or refused as
    ambiguous) are favoured; values fit the type of a parameter the name matches"""
    nodes = {p: nd for p, nd in mgen.param_paths(tree, active_only=False) if nd["k"] == "d"}
    sg = mgen.SourceGen(rng, valid_only=True)
    names, shared = interp_names(rng, tps) if tps else ([], [])
    pool = []
    for _ in range(rng.randint(3, 7)):
        k = rng.random()
        if shared and k < 0.55:
            name = rng.choice(shared)
        elif names and k < 0.8:
            name = rng.choice(names)
        elif tps and k < 0.9:
            name = rng.choice(tps)
        else:
            name = rng.choice(["zz", "nope.a", "s.zz", "a b"])
        hit = [p for p in tps if name in p and p in nodes]
        value = sg.value_for(nodes[rng.choice(hit)]) if hit and rng.random() < 0.8 else rng.choice(["1", "x y", "None", "'q r'"])
        a = rng.choice(["%s=%s", "%s=%s", "%s = %s", " %s= %s "]) % (name, value)
        if rng.random() < 0.05:
            a = rng.choice([name, name + "=", "=" + value, name + "='open", "positional"])
        pool.append(a)
    return pool


def interp_ops(rng, pool, n):
    """a dense history of calls on one interpreter: process(arg=), process(args=), process_and_fetch (both forms), and the
    same on copies of the used interpreter (copy / deepcopy / pickle)"""
    ops = []
    for _ in range(n):
        k = rng.random()
        some = [rng.choice(pool + ["--" + pool[0].strip(), "leftover", " "]) for _ in range(rng.randint(1, 4))]
        if k < 0.5:
            ops.append(["process_arg", rng.choice(pool)])
        elif k < 0.6:
            ops.append(["process_args", some])
        elif k < 0.8:
            ops.append(["process_and_fetch_collect", some])
        elif k < 0.88:
            ops.append(["process_and_fetch", some])
        else:
            ops.append([rng.choice(["copy", "deepcopy", "pickle"]) + "_then_process_arg", rng.choice(pool)])
    return ops


def interp_apply(itp, op, raw=None):
    kind, a = op
    if kind == "process_arg":
        return interp_outcome(lambda: itp.process(arg=a), raw)
    if kind == "process_args":
        return interp_outcome(lambda: itp.process(args=list(a)))
    if kind == "process_and_fetch_collect":
        return interp_outcome(lambda: itp.process_and_fetch(list(a), "collect_remaining"))
    if kind == "process_and_fetch":
        return interp_outcome(lambda: itp.process_and_fetch(list(a)))
    how = kind.split("_")[0]
    dup = {"copy": copy.copy, "deepcopy": copy.deepcopy, "pickle": lambda x: pickle.loads(pickle.dumps(x))}[how]
    return interp_outcome(lambda: dup(itp).process(arg=a))      # a used interpreter that cannot be copied is an answer too


def interp_history(m, home, ops, answers=None, shared=None):
    """run ops on ONE interpreter of m; every answer must equal the answer of a fresh interpreter of the same master to the
    same call (for the *_then_process_arg operations: of a fresh interpreter, copies behave like the original).
    Returns (index of the first history-dependent answer, description) or None. `answers` collects, for the process(arg=)
    calls, (argument, wire form of the shared interpreter's answer)."""
    shared = m.command_line_argument_interpreter(home_scope=home) if shared is None else shared
    for k, op in enumerate(ops):
        raw = []
        got = interp_apply(shared, op, raw)
        if answers is not None and op[0] == "process_arg":
            answers.append((op[1], interp_impl_j(raw[0])))
        fresh_op = ["process_arg", op[1]] if op[0].endswith("_then_process_arg") else op
        want = interp_apply(m.command_line_argument_interpreter(home_scope=home), fresh_op)
        if got != want:
            return k, ("%s(%r) as call %d on one argument interpreter (home_scope=%r) answered %r; a fresh interpreter of the "
                       "same master answers %r: the result depends on the interpreter's history"
                       % (op[0], op[1], k + 1, home, _short(got), _short(want)))
    return None


def _short(r):
    return tuple((x[:160] + "...") if isinstance(x, str) and len(x) > 160 else x for x in r)


def interp_shrink(mt, home, ops):
    """the shortest sub-history (greedy removal) that still shows a history-dependent answer on a newly parsed master"""
    def bad(seq):
        with contextlib.redirect_stdout(io.StringIO()):
            r = interp_history(freephil.parse(input_string=mt), home, seq)
        return r
    r = bad(ops)
    if r is None:
        return None, None
    ops = ops[:r[0] + 1]
    k = 0
    while k < len(ops) - 1:
        cand = ops[:k] + ops[k + 1:]
        if bad(cand) is not None:
            ops = cand
        else:
            k += 1
    r = bad(ops)
    return ops, r[1]


def interp_impl_j(r):
    """wire form (as in C14) of a process(arg=) result object / exception"""
    from props import C14
    if isinstance(r, freephil.scope):
        return ["ok", [obj_j(o) for o in r.objects]]
    if isinstance(r, freephil.Sorry):
        return C14.sorry_j(str(r))
    return err_j(r)


def calls(rng, m, ss, arg, mt=None, shared=None, pool=()):
    """a table of repeatable calls: name -> thunk returning a comparable result"""
    def parse_with(reg):
        def f():
            kw = {} if REGISTRIES[reg] is None else {"converter_registry": REGISTRIES[reg]}
            t = freephil.parse(input_string=mt, **kw)
            KEEP_ALIVE.append(t)
            if len(KEEP_ALIVE) > 400:
                del KEEP_ALIVE[:200]
            # a cold call builds every converter from the registry it was given: a converter of another registry's class means
            # the result depends on calls made earlier in the process
            if REGISTRIES[reg] is not None:
                for d in t.all_definitions():
                    conv = d.object.type
                    name = getattr(conv, "phil_type", None)
                    want = REGISTRIES[reg].get(name)
                    if want is not None and type(conv) is not want:
                        return ("HISTORY-DEPENDENT", "parse(converter_registry=%s) gave %s a converter of class %s, the registry says %s"
                                % (reg, d.path, type(conv).__name__, want.__name__))
            try:
                ex = repr(_fetch.dump(t.fetch().extract()))
            except (Exception, freephil.Sorry) as e:
                ex = "refused:" + type(e).__name__
            return t.as_str(attributes_level=3), ex
        return f

    def show(level):
        return lambda: (m.as_str(attributes_level=level), [s.as_str(attributes_level=level) for s in ss])

    def fetch_str(**kw):
        def f():
            r = m.fetch(sources=ss, **kw)
            if isinstance(r, tuple):
                return r[0].as_str(attributes_level=2), [str(u) for u in r[1]]
            return r.as_str(attributes_level=2)
        return f

    def extract():
        return repr(_fetch.dump(m.fetch(sources=ss).extract()))

    def fmt():
        return m.format(python_object=m.fetch(sources=ss).extract()).as_str(attributes_level=2)

    def clone():
        return repr(_fetch.dump(m.clone(m.fetch(sources=ss).extract())))

    def interp():
        with contextlib.redirect_stdout(io.StringIO()):
            return m.command_line_argument_interpreter().process(arg=arg).as_str()

    def interp_shared(op):
        # the SAME interpreter object all through the history, interleaved with every other call
        def f():
            bad = interp_history(m, shared[1], [op], shared=shared[0])
            if bad:
                return ("HISTORY-DEPENDENT", bad[1])
            return interp_apply(shared[0], op)
        return f

    def resolve():
        return [s.resolve_variables().as_str() for s in ss]

    def deep():
        c = copy.deepcopy(m)
        return c.as_str(attributes_level=3)

    def pick():
        return pickle.loads(pickle.dumps(m)).as_str(attributes_level=3)
    return {"show0": show(0), "show3": show(3), "fetch": fetch_str(), "fetch_track": fetch_str(track_unused_definitions=True),
            "fetch_diff": fetch_str(diff=True), "extract": extract, "format": fmt, "clone": clone, "interp": interp,
            "resolve": resolve, "deepcopy": deep, "pickle": pick,
            **({"parse_" + r: parse_with(r) for r in REGISTRIES} if mt is not None else {}),
            **({"interp_shared_%d" % k: interp_shared(["process_arg", a]) for k, a in enumerate(pool[:4])} if shared else {}),
            **({"interp_shared_fetch": interp_shared(["process_and_fetch_collect", list(pool)])} if shared and pool else {})}


def guarded(f):
    try:
        return ("ok", f())
    except (Exception, freephil.Sorry) as e:  # which exception is C16's business; here only repeatability matters
        return ("refused", type(e).__name__, str(e)[:80])


def copies_faithful(m):
    for label, c in (("copy()", m.copy()), ("deepcopy", copy.deepcopy(m)), ("pickle", pickle.loads(pickle.dumps(m)))):
        if c.as_str(attributes_level=3) != m.as_str(attributes_level=3):
            return "%s prints differently from the original" % label
        if label != "copy()":
            a, b = reach(m), reach(c)
            if set(a) & set(b):
                return "%s shares objects with the original" % label
            # parent links stay inside the copy
            for o in b.values():
                pps = getattr(o, "primary_parent_scope", None)
                if pps is not None and id(pps) in a:
                    return "%s: a child is linked to a parent of the original" % label
    return None


def shallow_copies_faithful(m, ss):
    """copy() of any object — also of template entries of a fetch result — has exactly the original's slots"""
    roots = [m]
    try:
        roots.append(m.fetch(sources=ss))
    except (Exception, freephil.Sorry):
        pass
    for root in roots:
        for o in reach(root).values():
            if not isinstance(o, (freephil.scope, freephil.definition)):
                continue
            c = o.copy()
            for sl in o.__slots__:
                a, b = getattr(o, sl, None), getattr(c, sl, None)
                if a is not b and a != b:
                    return "copy() of %s %r differs from the original in slot %s (%r vs %r)" % (
                        type(o).__name__, o.name, sl, b, a)
            for level in (0, 2, 3):
                if c.as_str(attributes_level=level) != o.as_str(attributes_level=level):
                    return "copy() of %s %r prints differently at attributes_level=%d" % (type(o).__name__, o.name, level)
    return None


def assignments_local(rng, m, ss):
    """assigning fields of a shallow copy or of a fetch result never changes the object it was made from"""
    before = m.as_str(attributes_level=3)
    objs = [o for o in reach(m).values() if isinstance(o, (freephil.scope, freephil.definition))]
    o = rng.choice(objs)
    c = o.copy()
    for s in ("name", "is_disabled", "help", "expert_level", "optional", "multiple", "short_caption"):
        if hasattr(c, s):
            setattr(c, s, "ASSIGNED")
    if c.is_scope:
        c.objects = []
    else:
        c.words = []
    if m.as_str(attributes_level=3) != before:
        return "assigning fields of a shallow copy changed the original", None
    try:
        w = m.fetch(sources=ss)
    except (Exception, freephil.Sorry):
        return None, None
    wobjs = [x for x in reach(w).values() if isinstance(x, (freephil.scope, freephil.definition))]
    for x in wobjs:
        for s in ("short_caption", "help", "is_disabled", "name"):
            setattr(x, s, "ASSIGNED")
    if m.as_str(attributes_level=3) != before:
        return "assigning fields of objects of a fetch result changed the master", "D21"
    return None, None


def run(ctx):
    rng = ctx.rng
    import os
    os.environ.update(dict(_fetch.ENV_CHOICES))     # the environment names the generated sources refer to
    n = ctx.scale(400, 6000, 1200)
    ccases, creqs, cimpls = [], [], []
    hcases, hreqs, himpls = [], [], []
    fcases, freqs, fimpls = [], [], []
    dcases, dreqs, dimpls = [], [], []
    gcases, greqs, gimpls = [], [], []
    icases, ireqs, iimpls = [], [], []
    for i in range(n):
        if ctx.time_left() < 30:
            ctx.notes.append("stopped early on time budget")
            break
        tree, mt, srcs = _fetch.gen(rng, nested=(i % 5 == 4), variables=(i % 2 == 1))
        if i % 2 == 1:
            ctx.count("sources_with_variables")
        paths = [p for p, nd in mgen.param_paths(tree) if nd["k"] == "d"]
        arg = "%s=1" % rng.choice(paths) if paths else "zz=1"
        m = freephil.parse(input_string=mt)
        ss = [freephil.parse(input_string=s) for s in srcs]
        # one argument interpreter per master object, kept for the whole history (and the dense history after it)
        tps = []
        for l in m.all_definitions():
            if l.path not in tps:
                tps.append(l.path)
        home = rng.choice([None, None, None] + sorted({p.rsplit(".", 1)[0] for p in tps if "." in p}) + ["zz"])
        pool = interp_pool(rng, tree, tps)
        iops = interp_ops(rng, pool, rng.choice([4, 8, 12]))
        shared = m.command_line_argument_interpreter(home_scope=home)
        table = calls(rng, m, ss, arg, mt, shared=(shared, home), pool=pool)
        names = list(table)
        history = [rng.choice(names) for _ in range(rng.choice([5, 10, 25]))]
        ctx.case((mt, tuple(srcs), tuple(history)), nontrivial=len(set(history)) < len(history))
        case = {"master": mt, "sources": srcs, "history": history,
                "interpreter": {"home_scope": home, "arguments": {"interp_shared_%d" % k: a for k, a in enumerate(pool[:4])},
                                "fetch_arguments": pool, "then_on_the_same_interpreter": iops}}
        long_lived = {}
        reach(m, long_lived)
        for s in ss:
            reach(s, long_lived)
        snap0 = slot_snapshot(long_lived)
        print0 = (m.as_str(attributes_level=3), [s.as_str(attributes_level=3) for s in ss])
        first = {}
        f = None
        for step, name in enumerate(history):
            ctx.count("call_" + name)
            r = guarded(table[name])
            if r[0] == "ok" and isinstance(r[1], tuple) and r[1] and r[1][0] == "HISTORY-DEPENDENT":
                f = "step %d: %s: %s" % (step, name, r[1][1])
                break
            if name in first and first[name] != r:
                f = "step %d: repeating %s returned a different result" % (step, name)
                break
            first.setdefault(name, r)
            d = diff_snap(snap0, slot_snapshot(long_lived))
            if d:
                o = long_lived[d[0]]
                f = "step %d: %s wrote slot %r of a long-lived %s (writes are outside the call's summary)" % (
                    step, name, d[1], type(o).__name__)
                break
            if (m.as_str(attributes_level=3), [s.as_str(attributes_level=3) for s in ss]) != print0:
                f = "step %d: %s changed the printed form of the master or a source" % (step, name)
                break
        # the dense interpreter history, on the interpreter the history above has already used; afterwards the long-lived
        # objects must be as they were
        if f is None:
            ians = []
            bad = interp_history(m, home, iops, answers=ians, shared=shared)
            n_amb = sum(1 for op in iops if op[0] == "process_arg" and op[1] in pool
                        and sum(1 for p in tps if op[1].split("=")[0].strip() in p) >= 2)
            ctx.count("interp_histories_with_%s_many_match_names" % min(n_amb, 2))
            for op in iops:
                ctx.count("interp_" + op[0])
            if bad:
                named = dict({"interp_shared_%d" % k: ["process_arg", a] for k, a in enumerate(pool[:4])},
                             interp_shared_fetch=["process_and_fetch_collect", list(pool)])
                small, what = interp_shrink(mt, home, [named[h] for h in history if h in named] + iops)
                if small is not None:
                    case = dict(case, interpreter_history_minimal={"master": mt, "home_scope": home, "calls": small})
                    f = what
                else:
                    f = "after the history above: " + bad[1]
            elif diff_snap(snap0, slot_snapshot(long_lived)) or \
                    (m.as_str(attributes_level=3), [s.as_str(attributes_level=3) for s in ss]) != print0:
                f = "argument interpretation on a shared interpreter changed the master or a source"
            elif ctx.mode != "impl-only":
                for a, ia in ians:
                    ireqs.append(["process_arg", enc(mt), None if home is None else enc(home), enc(a)])
                    iimpls.append(ia)
                    icases.append({"master": mt, "home": home, "arg": a, "answered_by": "an interpreter with a history"})
        # the model's fetch is a function of the ORIGINAL texts: after the whole history the long-lived master and
        # sources must still merge to what the model computes from the texts they were parsed from
        if f is None and ctx.mode != "impl-only":
            env = dict(_fetch.ENV_CHOICES) if i % 2 == 1 else None
            creqs.append(_fetch.fetch_req(mt, srcs, env=env))
            cimpls.append(_fetch.fetch_impl(m, ss))
            ccases.append(case)
        # heap model (Phil/Heap.lean): the identity graph after copy / deepcopy / pickle / customized_copy of a random
        # object of the master or of a fetch result (whose children point into the master) vs the model's graph
        if f is None and ctx.mode != "impl-only":
            roots = [m]
            if i % 2 == 0:
                try:
                    roots.append(m.fetch(sources=ss))
                except (Exception, freephil.Sorry):
                    pass
            hreq, himpl, hdesc = _heap.copy_case(rng, roots)
            if hreq is None:
                f = hdesc
            else:
                ctx.count("heap_" + hdesc["op"] + ("_of_fetch_result_universe" if len(roots) > 1 else ""))
                hreqs.append(hreq)
                himpls.append(himpl)
                hcases.append(dict(case, heap_op=hdesc))
        # heap-level fetch (Phil/HeapFetch2.lean, fetchH): the sharing structure of `master.fetch(sources=…)` on FRESH
        # parses of the same texts — which nodes reachable from the result are old objects, the parent links of the new
        # ones, and which old objects had `tmp = True` written — vs the model's; variable-free sources only (the model
        # answers `unsupported` otherwise); every 5th master has nested `.multiple` scopes
        if f is None and ctx.mode != "impl-only":
            fsrcs = srcs if i % 2 == 0 else []
            freq, fimpl, ffail = _heap.fetch_case(mt, fsrcs, _fetch.fetch_req(mt, fsrcs))
            if ffail:
                f = ffail
            else:
                ctx.count("heap_fetch" + ("_nested_multiple" if i % 5 == 4 else ""))
                freqs.append(freq)
                fimpls.append(fimpl)
                fcases.append(dict(case, heap_fetch_sources=fsrcs))
        # heap-level fetch_diff (Phil/HeapFetchDiff.lean, fetchDiffH) and format (Phil/HeapFormat.lean, formatH): the
        # same identity-graph comparison for `master.fetch_diff(sources=…)` and for
        # `master.format(master.fetch(sources).extract())` (with the is_template flags of the OLD objects afterwards)
        if f is None and ctx.mode != "impl-only":
            dreq, dimpl, dfail = _heap.fetch_diff_case(mt, srcs, _fetch.fetch_req(mt, srcs))
            if dfail:
                f = dfail
            else:
                ctx.count("heap_fetch_diff")
                dreqs.append(dreq)
                dimpls.append(dimpl)
                dcases.append(dict(case, heap_fetch_diff_sources=srcs))
        if f is None and ctx.mode != "impl-only":
            # the python object comes from variable-free sources (the driver computes it without an environment)
            fsrcs2 = srcs if (i % 3 != 0 and not any("$" in x for x in srcs)) else []
            greq, gimpl, gfail = _heap.format_case(mt, fsrcs2, _fetch.fetch_req(mt, fsrcs2))
            if gfail:
                f = gfail
            else:
                ctx.count("heap_format")
                greqs.append(greq)
                gimpls.append(gimpl)
                gcases.append(dict(case, heap_format_sources=fsrcs2))
        cls = None
        if f is None:
            f = copies_faithful(m) or shallow_copies_faithful(m, ss)
        if f is None:
            f, cls = assignments_local(rng, m, ss)
        if f:
            ctx.fail(case, f, finding=cls)
        if i % 30 == 0:
            ctx.sample({"master": mt[:300], "history": history})
    if creqs:
        ctx.corr("fetch_after_history", ccases, creqs, cimpls)
    if hreqs:
        ctx.corr("heap_copy_graph", hcases, hreqs, himpls)
    if freqs:
        ctx.corr("heap_fetch_graph", fcases, freqs, fimpls)
    if dreqs:
        ctx.corr("heap_fetch_diff_graph", dcases, dreqs, dimpls)
    if greqs:
        ctx.corr("heap_format_graph", gcases, greqs, gimpls)
    # process(arg=) is a function of (master text, home scope, argument) in the model: what an interpreter WITH a history
    # answered is compared with that one value
    if ireqs:
        ctx.corr("process_arg_on_used_interpreter", icases, ireqs, iimpls)
    # fetch_diff(...).as_str etc. are covered above; interface.index(M) writes captions on shared children (D21)


def finding_still_fails(f):
    w = f["witness"]
    m = freephil.parse(input_string=w["master"])
    before = m.as_str(attributes_level=3)
    r = m.fetch()
    r.objects[0].objects[0].short_caption = "A"
    return m.as_str(attributes_level=3) != before


def replay(payload):
    print(payload["failure"])
    case = payload["failure"].get("case", {}) if isinstance(payload["failure"], dict) else {}
    mini = case.get("interpreter_history_minimal")
    if mini:
        # the minimal interpreter history is self-contained: run it again on a newly parsed master
        with contextlib.redirect_stdout(io.StringIO()):
            r = interp_history(freephil.parse(input_string=mini["master"]), mini["home_scope"], mini["calls"])
        print("interpreter history now: %s" % ("every answer equals a fresh interpreter's" if r is None else r[1]))
        return r is None
    return False
