"""C16 — user mistakes surface as RuntimeError or Sorry, never as internal errors."""
import signal

import gen
import mgen
from common import freephil, enc, obj_j, call_j, err_j
from props import _lay, _fetch

LEVEL = "proof"
MODULE = "Phil.Props.C16"
LEVEL_TEXT = "Lean theorems: every top-level function of the parser model is total and never produces a `stray` exception class; the same for attribute conversion, converters, the argument interpreter (processArgA_no_stray; with Auto expert levels the exact iff choosePathA_stray_iff = finding D78), variable resolution on every parsed text (resolveAt_parsed_no_stray), include expansion (expand_errors: the only non-RuntimeError is the missing-file OSError), printing (asStr_error_iff, asStr_parsed_total with the sharp width bound), fetch + extract on nested masters incl. .multiple scopes (fetch_ms_errors, extract_ms_no_stray: only 'incompatible' or a converter's RuntimeError), fetch with variables (fetch_with_variables_errors), refusals of the index (index_refusal_unchanged); for fetch + extract in general the list of stray sites is proved exhaustive (fetchRoot_stray_sites, all through ill-formed masters). That the model has every error site of the code is checked by the correspondence run on a malformed stream. The oracle runs parse, the argument interpreter, fetch/extract/validate for every built-in type on hostile texts and accepts only success, RuntimeError or Sorry, with a time bound per call."
LEVEL_NOTE = "proof for the model half, correspondence for the exception-class completeness half; eval() of value expressions is CPython's. Finding D78 (.expert_level = Auto)."
TECHNIQUE = 'Lean 4 totality/no-stray theorems on every modelled entry point + differential correspondence on a malformed stream + exception-class oracle'
RULE = ("PHIL-biased token soup, mutated valid documents (parse), name=value soups (argument interpreter), value texts incl. "
        "inf/nan/1e999/empty brackets/unbalanced parentheses for every built-in type with constructor arguments (fetch, extract, "
        "validate), attribute texts, '.expert_level' spellings x ambiguous arguments (finding D78), environment variables unset / empty / blank / one word / several words referenced as $V, $(V), quoted, embedded and mixed in values of every built-in type through the file and command-line routes (fetch, extract, format, validate; oracle only); non-trivial = the call raised or the text has > 3 tokens; distinct = (stream, text)")
ASSUMPTIONS = ["type names in hostile texts are built-in names or undotted misspellings (a dotted non-built-in type name makes "
               "the code import arbitrary modules, outside the property's 'built-in type names')"]

MASTER = """
a = 1
  .type = int
b = 1.5
  .type = float(value_min=0)
c = 1 2
  .type = ints(size_max=3)
d = 1.5
  .type = floats(size=1)
e = x *y
  .type = choice
f = *x y z
  .type = choice(multi=True)
  .optional = False
g = True
  .type = bool
s {
  h = "t"
    .type = str
  i = None
    .type = path
  k = x
    .type = key
  m .multiple = True {
    w = a b
      .type = words
    q = a
      .type = qstr
    st = a b
      .type = strings
    u = 1
  }
}
"""
TYPES = ["int", "float", "ints", "floats", "bool", "str", "qstr", "path", "key", "words", "strings", "choice",
         "choice(multi=True)", "int(value_min=0, value_max=10)", "float(value_max=1e3)", "ints(size=2)",
         "floats(size_min=1, size_max=2)", "int(allow_none=False)", "ints(allow_none_elements=True, allow_auto_elements=True)",
         "floats(value_min=-1, value_max=1)", "ints(value_min=0, allow_none_elements=True, allow_auto_elements=True)",
         "floats(value_max=5, allow_none_elements=True)", "floats(value_min=0, value_max=9, size_max=3, allow_auto_elements=True)",
         None]
VALUES = ["1", "-1", "1.5", "inf", "-inf", "nan", "1e999", "-1e999", "10**400", "1e400", "1/0", "1//0", "0/0", "()", "[]", "[ ]",
          "(", ")", "[", "]", "(1", "1)", "((1))", "[(1,2)]", "1,2", "1;2", "1 , 2", ",", ";", "+", "-", "*", "/", "**", "1+", "+1",
          "1 2 3", "1 2 3 4", "None", "none", "Auto", "auto", "True", "true", "False", "yes", "no", "x", "*x", "*y", "x+y", "x+",
          "+x", "*", "*q", "x y", "'x'", '"*y"', "1e3", "4/2", "3/2", "2**0.5", "1j", "'a'", "\"\"", "''", "None None", "Auto 1",
          "1 None", "None 1", "Auto Auto", "lambda: 1", "__import__", "[1,2]", "(1,2,3)", "1,,2", "pi", "e", "sqrt(4)", "sqrt(-1)",
          "log(0)", "0x10", "1_000", "١", "²", "1.", ".5", "1e", "e1", "--1", "1 if True else 2", "[x for x in ()]", "x y z",
          "*x *y", "*x *z", "z", "$a", "$(a)", "$", "\\", "a\\", "#", "# c", "1 # c", "{", "}",
          "%", "%s", "%d", "a%b", "sin%1", "1%(1,)", "1%0", "%(x)s", "100%", "'%s'", "5%3"]


class Timeout(Exception):
    pass


def _alarm(signum, frame):
    raise Timeout()


def guarded(f):
    """outcome class of f(): 'ok' | 'runtime' | 'sorry' | ('stray', class, message) | ('timeout',)"""
    signal.signal(signal.SIGALRM, _alarm)
    signal.alarm(5)
    try:
        f()
        return "ok"
    except Timeout:
        return ("timeout",)
    except RecursionError as e:
        return ("stray", "RecursionError", str(e)[:80])
    except BaseException as e:  # noqa: BLE001
        if isinstance(e, (KeyboardInterrupt, MemoryError)):
            raise
        if isinstance(e, freephil.Sorry):
            return "sorry"
        if type(e) is RuntimeError:
            return "runtime"
        msg = str(e)
        import traceback as _tb
        if any(fr.name in ("_import_python_object", "scope_extract_call_proxy") or fr.name == "__init__" and "_import_python_object" in (fr.line or "")
               for fr in _tb.extract_tb(e.__traceback__)):
            return "outside"  # raised while importing a Python object for `.call` / a dotted non-built-in `.type`
        if isinstance(e, IndentationError):
            import traceback
            if any(fr.name == "normalize_call_expression" for fr in traceback.extract_tb(e.__traceback__)):
                return "outside"  # a .type expression spanning several lines: the property covers one-line arguments
        if (msg.startswith('scope "') and ".call" in msg) or msg.startswith(".type=") and "_phil_converters" in msg:
            return "outside"  # Python import attributes (.call, dotted non-built-in .type): not in the property's domain
        return ("stray", type(e).__name__, msg[:120])
    finally:
        signal.alarm(0)


_masters = {}


def master():
    if "m" not in _masters:
        _masters["m"] = freephil.parse(input_string=MASTER)
    return _masters["m"]


def typed_master(t):
    if t not in _masters:
        text = "v = x y\n" if t is None else "v = x y\n  .type = %s\n" % t
        if t and t.startswith("choice"):
            text = "v = x *y z\n  .type = %s\n" % t
        _masters[t] = freephil.parse(input_string=text)
    return _masters[t]


def env_case(mt, route, home, text, ref, env):
    """outcome class of: set os.environ as `env` (None = unset), fetch `text` (a parameter file, or one command-line
    argument with home scope `home`) against master `mt`, then extract / format / validate every fetched definition"""
    import os
    saved = {k: os.environ.get(k) for k in env}
    try:
        for k, ev in env.items():
            if ev is None:
                os.environ.pop(k, None)
            else:
                os.environ[k] = ev

        def fenv():
            m = freephil.parse(input_string=mt)
            if route == "file":
                w = m.fetch(source=freephil.parse(input_string=text, source_info="user.phil"))
            else:
                w = m.command_line_argument_interpreter(home_scope=home).process_and_fetch(args=[text])
            for loc in w.all_definitions():
                d = loc.object
                d.try_extract()
                d.try_extract_format()
                d.validate(input_string=ref)
                d.validate_and_format(input_string=ref)
            m.format(python_object=w.extract())
            w.extract_format()
            m.fetch(source=w)
        return guarded(fenv)
    finally:
        for k, ev in saved.items():
            if ev is None:
                os.environ.pop(k, None)
            else:
                os.environ[k] = ev


def run(ctx):
    rng = ctx.rng
    n = ctx.scale(6000, 100000, 20000)
    cases, reqs, impls = [], [], []

    def note(stream, text, out):
        ctx.case((stream, text), nontrivial=(out != "ok") or len(text.split()) > 3)
        ctx.count("%s_%s" % (stream, out if isinstance(out, str) else out[0]))
        if not isinstance(out, str):
            ctx.fail({"stream": stream, "text": text}, "%s: %s" % (stream, out))

    # ---- well-formed random masters x generated sources through fetch / extract / format
    for i in range(ctx.scale(400, 8000, 1500)):
        if ctx.time_left() < 40:
            break
        tree, mt, srcs = _fetch.gen(rng, nested=(i % 3 == 2), deprecated=True)
        m = freephil.parse(input_string=mt)

        def fx():
            w = m.fetch(sources=[freephil.parse(input_string=s) for s in srcs])
            m.format(python_object=w.extract())
            m.fetch_diff(source=w)
        out = guarded(fx)
        ctx.case(("master", mt, tuple(srcs)), nontrivial=bool(srcs))
        ctx.count("master_fetch_%s" % (out if isinstance(out, str) else out[0]))
        if not isinstance(out, str):
            ctx.fail({"stream": "master", "master": mt, "sources": srcs}, "fetch/extract/format/diff: %s" % (out,),
                     finding=["D9"] if _fetch.has_nested_further(tree) else None)
    # ---- masters whose scopes / definitions carry .alias x sources spelt with the alias, the name, both, or the wrong kind
    for i in range(ctx.scale(150, 3000, 600)):
        al = rng.choice(["f", "f", "g.h", "s", "a"])
        mult = rng.choice(["", "", "  .multiple = True\n"])
        inner = rng.choice(["  a = 1\n", "  a = 1\n    .alias = %s\n" % rng.choice(["q", "f"]), "  t {\n    a = 1\n  }\n",
                            "  t\n    .alias = u\n  {\n    a = 1\n  }\n"])
        body = "s\n  .alias = %s\n%s{\n%s}\n" % (al, mult, inner)
        mt = rng.choice([body, "p {\n%s}\n" % "".join("  " + l + "\n" for l in body.splitlines()), "b = 1\n  .alias = %s\n%s" % (al, body)])
        lines = []
        for _ in range(rng.randint(1, 3)):
            head = rng.choice([al, al, "s", "p." + al, "p.s", "q", "u"])
            lines.append(rng.choice(["%s.a = 2\n", "%s {\n  a = 3\n}\n", "%s.t.a = 4\n", "%s = 5\n", "%s.u.a = 6\n", "%s.q = 7\n",
                                     "%s {\n  t {\n    a = 8\n  }\n}\n"]) % head)
        st = "".join(lines)

        def fa():
            m = freephil.parse(input_string=mt)
            w = m.fetch(source=freephil.parse(input_string=st))
            w.extract()
            m.fetch_diff(source=w)
            m.fetch(source=w)
        out = guarded(fa)
        ctx.case(("alias", mt, st), nontrivial=True)
        ctx.count("alias_%s" % (out if isinstance(out, str) else out[0]))
        if not isinstance(out, str):
            ctx.fail({"stream": "alias", "master": mt, "source": st}, "fetch/extract/diff with aliases: %s" % (out,))
    # ---- '.expert_level' texts of every spelling on some of several same-prefix parameters x an ambiguous argument: the
    #      interpreter's tie-break reads the levels.  (Integers beyond float range are left out until the proposed repair
    #      D77 - tie-break in integers - is in the tree: they raise OverflowError from `exp_lvl / 100`.)
    import contextlib
    import io
    for i in range(ctx.scale(120, 2500, 500)):
        levels = [rng.choice(["", "", "0", "1", "3", "-1", "Auto", "auto", "None", "1.0", "1.5", "True", "x", "2**3", "'2'"])
                  for _ in range(rng.randint(2, 3))]
        mt = "".join("a%s = 1\n  .type = int\n%s" % ("bcd"[j], "  .expert_level = %s\n" % lv if lv else "")
                     for j, lv in enumerate(levels))
        if rng.random() < 0.3:
            mt = "s\n%s{\n%s}\n" % (rng.choice(["", "  .expert_level = Auto\n", "  .expert_level = 2\n"]), mt)
        arg = rng.choice(["a=2", "a=2", "ab=2", "s.a=2", "=2"])

        def fi():
            m = freephil.parse(input_string=mt)
            with contextlib.redirect_stdout(io.StringIO()):
                m.command_line_argument_interpreter().process(arg=arg)
        out = guarded(fi)
        ctx.case(("expert_levels", mt, arg), nontrivial=True)
        ctx.count("expert_levels_%s" % (out if isinstance(out, str) else out[0]))
        if not isinstance(out, str):
            # finding class D78, a predicate on the INPUT: some '.expert_level' is the plain word Auto
            d78 = any(l.strip().lower() == ".expert_level = auto" for l in mt.splitlines())
            ctx.fail({"stream": "expert_levels", "master": mt, "arg": arg}, "argument interpreter: %s" % (out,),
                     finding=["D78"] if d78 and out[1] == "TypeError" else None)
    # ---- state outside the text: environment variables that are unset, set but EMPTY, blank, one word or several words,
    #      referenced in every shape ($V, $(V), quoted, embedded, mixtures) as the value of a parameter of every built-in
    #      type (plain, .multiple, mandatory), through the file route and the command-line route, then extract / format /
    #      validate of the fetched definition.  The model takes os.environ as a parameter of the substitution and the parse
    #      correspondence does not see it: impl-only stream (counted as env_*).
    env_names = ["PHIL_C16_V", "PHIL_C16_W"]
    for i in range(ctx.scale(700, 12000, 2500)):
        if ctx.time_left() < 35:
            break
        env = {}
        for k in env_names:
            ev = rng.choice([None, "", "", " ", "   ", "\t", " \t ", "1", "2", " 1", "1 ", "1 2", "1  2 3", "a b", "x", "*x", "x y",
                             "None", "Auto", "True", "1.5 x", "a.mtz b.mtz", "'", '"', "1;2", "#", "$PHIL_C16_W", "{", "é"])
            env[k] = ev
        ref = rng.choice(["$%s", "$%s", "$(%s)", "$(%s)", '"$%s"', '"$(%s)"', "'$%s'", "pre$%s", "$(%s)post", "$%s.x", "*$%s",
                          "1 $%s", "$(%s) 1", "$%s $(PHIL_C16_W)", "$%s$PHIL_C16_W", "$(%s)$(PHIL_C16_W)", '"$%s $PHIL_C16_W"',
                          "$(%s) x $PHIL_C16_W", "$%s #c", "\\$%s"]) % "PHIL_C16_V"
        t = rng.choice(TYPES)
        attrs = rng.choice(["", "", "  .multiple = True\n", "  .optional = False\n", "  .optional = True\n"])
        # (a choice master whose words are a plain None is ill-formed: the code asserts it away)
        default = rng.choice(["x *y z", "x y z", "*1 2"]) if t and t.startswith("choice") else rng.choice(["None", "None", "1"])
        mt = "v = %s\n%s%s" % (default, "" if t is None else "  .type = %s\n" % t, attrs)
        if rng.random() < 0.3:
            mt = "s {\n%s}\n" % "".join("  " + l + "\n" for l in mt.splitlines())
        path = "s.v" if mt.startswith("s {") else "v"
        route = rng.choice(["file", "file", "argv", "argv_home"])
        st = rng.choice(["%s = %s\n", "%s = %s\n", "%s=%s;%s = 1\n" % ("%s", "%s", path), "%s = %s\n%s = $(v)\n" % ("%s", "%s", path)]) % (path, ref)
        arg = "%s=%s" % (path if route == "argv" else "v", ref)

        home = "s" if route == "argv_home" and path != "v" else None
        text = st if route == "file" else arg
        out = env_case(mt, route, home, text, ref, env)
        ctx.case(("env", mt, route, text, tuple(sorted(env.items(), key=str))), nontrivial=True)
        ctx.count("env_%s_%s" % (route.split("_")[0], out if isinstance(out, str) else out[0]))
        if any(v is not None and not v.strip() for v in env.values()):
            ctx.count("env_empty_or_blank")
        if i % 100 == 0:
            ctx.sample({"stream": "env", "master": mt, "route": route, "text": text, "environ": env, "outcome": out})
        if not isinstance(out, str):
            ctx.fail({"stream": "env", "master": mt, "route": route, "home_scope": home, "text": text, "ref": ref, "environ": env},
                     "fetch/extract/validate with environment variables: %s" % (out,))
    for i in range(n):
        if ctx.time_left() < 25:
            ctx.notes.append("stopped early on time budget")
            break
        k = i % 5
        if k == 0 and i % 30 == 15:
            # $variable references of every shape (dotted paths through definitions and scopes, anchored, malformed) in a
            # source that is then merged and extracted
            refs = ["$a", "$(a)", "$(a.b)", "$(a.b.c)", "$(s.h)", "$(s.h.x)", "$(s)", "$(s.m.u)", "$(.a)", "$(.s.h)", "$(.)",
                    "$(a.)", "$()", "$zz", "$(zz.a)", "$(x1)", "$(x1.y)", "pre$(a.b)", '"$(a.b) z"', "'$(a.b)'", "$a$b", "$(s.a)",
                    "$(b.b)", "$(g.x)", "$(c.1)", "$$a", "$(a b)", "\\$a"]
            lines = []
            for _ in range(rng.randint(1, 4)):
                name = rng.choice(["a", "b", "c", "g", "x1", "s.h", "s.i", "s.k", "x1.y", "s.x1"])
                val = rng.choice(refs) if rng.random() < 0.7 else rng.choice(["1", "2", "t", "True"])
                lines.append("%s = %s\n" % (name, val))
            if rng.random() < 0.3:
                lines.insert(rng.randint(0, len(lines)), "s {\n  h = %s\n}\n" % rng.choice(refs))
            text = "".join(lines)
            ctx.count("variable_sources")
        elif k == 0 and i % 15 == 0:
            # a switched-off region that runs into the end of the text in every possible way
            text = (rng.choice(["", "a = 1\n", "s {\n"]) + "#phil __OFF__" + rng.choice(["\n", " \n", "\nx = 'junk\n", "\n\n"])
                    + rng.choice(["", "junk {\n", "#phil x\n"])
                    + rng.choice(["#phil", "#phil__ON__", "#philosophy", "#phil __ON__", "#phil  ", "#phil\n__ON__", "#phil __END__",
                                  "#phil __O", " #phil", "#phil\t", "#phil __ON__ x", "#"])
                    + rng.choice(["", "", "\n", " ", "\nb = 2"]))
        elif k == 0 and i % 15 == 5:
            # every shape of a dotted name: empty, digit-initial, forbidden-character components at every position
            comps = [rng.choice(["a", "b1", "_x", "s", "", "", "1a", "a-b", "$", "a$b", "include", "__ON__", "é", "a b"])
                     for _ in range(rng.randint(1, 4))]
            name = ".".join(comps)
            text = rng.choice(["%s = 1\n", "%s {\n  x = 1\n}\n", "s {\n  %s = 1\n}\nb = 2\n", "%s\n  .help = h\n{\n}\n",
                               "!%s = 1\n", "%s=1;b=2\n"]) % name
            ctx.count("name_shapes")
        elif k == 0 and i % 15 == 10:
            # a built-in type name (with arguments) followed by further Python on the same line
            t = rng.choice([x for x in TYPES if x])
            suffix = rng.choice([".value_min", ".__class__", " and None", ", int()", "()", "[0]", "+1", " or 1", ".x", ".multi",
                                 " if 0 else 3", " == 1", ".phil_type", ".__dict__", " is None", ".size_min", "(1)", " ,"])
            text = "v = 1\n  .type = %s%s\n" % (t, suffix)
            if rng.random() < 0.4:
                # ill-typed constructor arguments
                base = rng.choice(["int", "float", "ints", "floats", "choice"])
                arg = rng.choice(["value_min", "value_max", "size", "size_min", "size_max", "allow_none", "multi",
                                  "allow_none_elements", "bogus"])
                val = rng.choice(["int", "'a'", "[1]", "1j", "None", "1.5", "-1", "0", "True", "(1,2)", "{}", "float('nan')", "2**70"])
                text = "v = 1\n  .type = %s(%s=%s)\n" % (base, arg, val)
            ctx.count("type_suffixes")
        elif k == 0:
            text = gen.soup(rng)
        elif k == 1:
            text = gen.mutate(rng, gen.DocGen(rng).doc())
        elif k == 2:
            text = gen.mutate(rng, gen.mutate(rng, _lay.gen_case(rng)[1]))
        # ---- parse (with correspondence)
        if k in (0, 1, 2):
            out = guarded(lambda: freephil.parse(input_string=text))
            note("parse", text, out)
            if out == "ok":
                # whatever was accepted can be printed with all its attributes
                note("show", text, guarded(lambda: freephil.parse(input_string=text).as_str(attributes_level=3)))
            cases.append({"text": text})
            reqs.append(["parse", enc(text)])
            impls.append(call_j(lambda: freephil.parse(input_string=text), obj_j))
            if i % 500 == 0:
                ctx.sample({"stream": "parse", "text": text, "outcome": out})
            # the same text as a source for fetch / extract against a typed master
            def fe():
                src = freephil.parse(input_string=text)
                w = master().fetch(source=src)
                w.extract()
            out = guarded(fe)
            note("fetch_extract", text, out)
        elif k == 3:
            # ---- argument interpreter
            name = rng.choice(["a", "b", "c", "s.h", "h", "m.u", "u", "s.m.w", "zz", "s", "", "a.", ".a", "e", "f", "g", "st", "i",
                               "a%b", "%s", "a%", "a..b", "s..h", "s.m..u", "..a", "a..", "s.1", "s.h.", "s.-h"])
            val = rng.choice(VALUES) if rng.random() < 0.7 else gen.soup(rng, rng.randint(1, 4))
            arg = rng.choice(["%s=%s", "%s = %s", "%s=%s;", "%s %s", "--%s=%s", "%s==%s", "%s={%s}", "--%s%s"]) % (name, val)
            mm = master()
            if i % 40 == 3:
                mm = freephil.parse(input_string=rng.choice(["", "s {\n}\n", "s {\n  t {\n  }\n}\n", "!a = 1\n"]))
                ctx.count("masters_without_parameters")
            interp = mm.command_line_argument_interpreter(home_scope=rng.choice([None, "s", "s.m", "x"]))
            out = guarded(lambda: interp.process(arg=arg))
            note("process_arg", arg, out)
            def pf():
                w = interp.process_and_fetch(args=[arg])
                w.extract()
            out = guarded(pf)
            note("process_and_fetch", arg, out)
        else:
            # ---- typed values through fetch / extract / validate
            t = rng.choice(TYPES)
            v = rng.choice(VALUES)
            if rng.random() < 0.2:
                v = v + " " + rng.choice(VALUES)
            m = typed_master(t)
            def fe2():
                src = freephil.parse(input_string="v = " + v + "\n")
                m.fetch(source=src).extract()
            out = guarded(fe2)
            note("typed_value[%s]" % t, v, out)
            d = m.objects[0]
            out = guarded(lambda: d.validate(input_string=v))
            note("validate[%s]" % t, v, out)
            out = guarded(lambda: d.validate_and_format(input_string=v))
            note("validate_and_format[%s]" % t, v, out)
        if len(reqs) >= 3000:
            if ctx.mode != "impl-only":
                ctx.corr("parse", cases, reqs, impls)
            cases, reqs, impls = [], [], []
    if reqs and ctx.mode != "impl-only":
        ctx.corr("parse", cases, reqs, impls)


def finding_still_fails(f):
    if f["id"] == "D78":
        # parse accepts the master; the argument interpreter must then succeed or refuse with RuntimeError / Sorry
        w = f["witness"]
        try:
            m = freephil.parse(input_string=w["master"])
        except Exception:        # refused at parse (the repair): the finding covers nothing
            return False
        import contextlib
        import io
        try:
            with contextlib.redirect_stdout(io.StringIO()):
                m.command_line_argument_interpreter().process(arg=w["arg"])
        except (RuntimeError, freephil.Sorry):
            return False
        except Exception:
            return True
        return False
    try:
        freephil.parse(input_string=f["witness"]["master"]).fetch()
    except (RuntimeError, freephil.Sorry):
        return False
    except Exception:
        return True
    return False


def replay(payload):
    c = payload["failure"]["case"]
    print(c)
    if c.get("stream") == "env":
        out = env_case(c["master"], c["route"], c.get("home_scope"), c["text"], c["ref"], c["environ"])
        print(out)
        return isinstance(out, str)
    return False
