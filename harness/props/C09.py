"""C09 — Python objects written back to PHIL and read again are unchanged."""
import copy
import math

import mgen
from common import freephil, enc, obj_j, call_j, AutoT, tokenizer
from props import _fetch
from values import pval_j, num_j

LEVEL = "proof"
MODULE = "Phil.Props.C09"
LEVEL_TEXT = 'Lean theorems about the converter model: fromWords (asWords v) = v for every built-in type on its domain, asWords refuses exactly the values that break bounds, sizes, alternatives or None rules (asWords_refuses, asWords_stray_iff), whole-tree closed forms format_closed / extract_closed / format_extract_tree on nested masters and, with .multiple definitions and scopes, format_closed_ms / format_extract_ms / extract_scope_closed_ms (scope_extract lists, templates and placeholders followed step by step). Tied to /repo by a correspondence run of format on generated in-domain values; the oracle checks format->extract equality, the print/parse/fetch/extract leg on every case (values longer than a print line, narrow widths) and refusal of out-of-domain values, on the implementation.'
LEVEL_NOTE = "float text is CPython's ('%.10g', eval): a law (hypothesis) in the theorems, harness-supplied renderings in the run. The print->parse->fetch->extract leg with fetch's collapse is proved on instances only. Known findings D15, D16, D18, D6 reached through format."
TECHNIQUE = 'Lean 4 round-trip theorems per converter + whole-tree format/extract closed form (incl. .multiple) + differential correspondence + round-trip oracle'
RULE = ("masters (all built-in types, multiples, nested scopes) x in-domain Python values per type (strings over quotes, "
        "backslashes, newlines, unicode; ints of any magnitude; floats incl. inf, tiny and huge; lists within bounds; choices; "
        "None/Auto; list values and choice alternative lists longer than one print line with bare and quoted words mixed) "
        "assigned to an extracted object, printed at the default and at narrower widths; non-trivial = at least one value "
        "differs from the default")
ASSUMPTIONS = ["values are assigned through the public scope_extract attributes"]

CHARS = ["a", "b", " ", "'", '"', "\\", "\n", "#", "{", "}", ";", "=", "é", "\t", "*", "+", "None", "x y", "~"]


def rand_str(rng, no_dollar=True):
    return "".join(rng.choice(CHARS) for _ in range(rng.choice([0, 1, 2, 3, 6, 12])))


def rand_float(rng):
    return rng.choice([0.0, 1.5, -2.25, 1e-300, 1e300, 3.14159265358979, 1 / 3.0, 2.0 ** 60, -1e-5, 123456789.125,
                       float("inf"), float("-inf"), 0.1, 1e22, 5e-324])


def rand_int(rng):
    return rng.choice([0, 1, -1, 7, 10, 255, -300, 10 ** 12, 10 ** 25, -(10 ** 20), 2 ** 53 + 1])


IDENT_CHARS = "abcdefghijklmnopqrstuvwxyzABCDEFGHIJKLMNOPQRSTUVWXYZ_"
PLAIN_PUNCT = ["(+)", "(-)", "-", " ", "/", ":", ";", "=", ",", "'", '"', "#", "{", "}", "\\", "é", "~", "*", "+"]


def rand_ident(rng):
    """a string the writers leave unquoted: a standard identifier, possibly dotted"""
    s = rng.choice(IDENT_CHARS) + "".join(rng.choice(IDENT_CHARS + "0123456789") for _ in range(rng.choice([0, 1, 3, 6, 9])))
    if rng.random() < 0.1:
        s += "." + rng.choice(IDENT_CHARS) + rng.choice(IDENT_CHARS + "0123456789")
    return s


def rand_label(rng):
    """a string the writers must quote (blank, bracket, punctuation inside or around an identifier); one line"""
    a, b = rand_ident(rng)[:6], rand_ident(rng)[:4]
    p = rng.choice(PLAIN_PUNCT)
    return rng.choice([a + p + b, a + p, p + a, a + p + b + p])


def long_strings(rng):
    """a list of strings whose printed form is longer than one print line (default width 79, also when nested): a mix of
    elements that are written bare and elements that are written in quotes, so that the places where the printer breaks
    the line fall between every combination of bare / quoted / multi-line words"""
    target = rng.choice([60, 80, 100, 140, 220])
    p_bare = rng.choice([0.2, 0.5, 0.5, 0.8])
    out, n = [], 0
    while n < target:
        r = rng.random()
        if r < 0.015:
            e = rand_label(rng) + "\n" + rand_ident(rng)       # a word that spans lines
        elif r < 0.10:
            e = rand_str(rng)
        elif rng.random() < p_bare:
            e = rand_ident(rng)
        else:
            e = rand_label(rng)
        out.append(e)
        n += len(e) + 1
    return out


def multi_line_before_end(lst):
    """input class of finding D6 (recorded under C01): a list value with an element that spans lines and is followed by a
    further element - when the printer breaks the line right after it, the continuation mark is not accepted"""
    return any(isinstance(e, str) and "\n" in e for e in lst[:-1])


def new_value(rng, mo, klass, long=False):
    """an in-domain Python value for master definition mo; appends finding classes met to klass.
    long: list-typed values are made longer than a print line"""
    t = mo.type
    pt = None if t is None else t.phil_type
    k = rng.random()
    allow_none = getattr(t, "allow_none", True)
    if k < 0.07 and allow_none and not (pt == "choice" and mo.optional is False) and not (pt == "choice" and t.multi):
        return None
    if k < 0.12 and pt not in ("words",):
        return freephil.Auto
    if pt in ("str", "key"):
        return rand_str(rng)
    if pt == "path":
        s = rand_str(rng)
        if s.startswith("~"):
            klass.append("D18")
        return s
    if pt == "qstr":
        return rng.choice(["a", "'p q' r", '"x\\"y" z', "a  b".replace("  ", " "), "1 2 3"])
    if pt == "bool":
        return rng.choice([True, False])
    if pt in ("int", "float"):
        lo, hi = t.value_min, t.value_max
        for _ in range(20):
            v = rand_int(rng) if pt == "int" else rand_float(rng)
            if (lo is None or v >= lo) and (hi is None or v <= hi):
                return v
        return lo if lo is not None else hi
    if pt in ("ints", "floats"):
        smin = t.size_min or 0
        smax = t.size_max if t.size_max is not None else smin + 3
        n = rng.randint(smin, max(smin, smax))
        if long and t.size_max is None:
            n = smin + rng.choice([12, 20, 30, 45])     # the printed numbers run over one or more print lines
        if n == 0:
            klass.append("D15")
        out = []
        for _ in range(n):
            r = rng.random()
            if r < 0.1 and t.allow_none_elements:
                out.append(None)
            elif r < 0.2 and t.allow_auto_elements:
                out.append(freephil.Auto)
            else:
                for _ in range(20):
                    v = rand_int(rng) if pt == "ints" else rand_float(rng)
                    if (t.value_min is None or v >= t.value_min) and (t.value_max is None or v <= t.value_max):
                        break
                else:
                    v = t.value_min
                out.append(v)
        if len(out) == 1 and (out[0] is None or isinstance(out[0], AutoT)):
            klass.append("D16")
        return out
    if pt == "choice":
        alts = [w.value.lstrip("*") for w in mo.words]
        if t.multi:
            sel = [a for a in alts if rng.random() < 0.5]
            if not sel and mo.optional is False:
                sel = alts[:1]
            return sel
        return rng.choice(alts)
    if (pt == "strings" or t is None) and long:
        out = long_strings(rng)
        if multi_line_before_end(out):
            klass.append("D6")
        return out
    if pt == "strings" or t is None:
        n = rng.choice([1, 1, 2, 3])
        # incl. elements that spell None/Auto in any letter case (the readers take a lone unquoted one as the atom)
        out = [rng.choice(["none", "NONE", "auto", "AUTO", "nOnE", "None", "Auto", "nonesuch", "automatic"])
               if rng.random() < 0.2 else rand_str(rng) for _ in range(n)]
        if multi_line_before_end(out):
            klass.append("D6")
        return out
    if pt == "words":
        out = []
        for _ in range(rng.choice([8, 14, 24]) if long else rng.choice([1, 2])):
            q = rng.choice([None, '"', "'"])
            v = rand_str(rng).replace("\n", " ") if q else rng.choice(["w", "a.b", "x-1", "p/q", "1.5"])
            out.append(tokenizer.word(value=v, quote_token=q))
        return out
    return None


LIST_TYPES = ("strings", "words", "ints", "floats")


def assign(rng, ms, ex, klass, changed, long=False):
    """walk master scope ms and extracted object ex, assigning new in-domain values (long: list values longer than a print
    line, and every list-typed parameter gets one)"""
    seen = set()
    for mo in ms.objects:
        if mo.is_disabled or mo.name in seen:
            continue
        seen.add(mo.name)
        cur = getattr(ex, mo.name, None)
        if mo.is_definition:
            is_list = mo.type is None or mo.type.phil_type in LIST_TYPES
            if rng.random() < (0.9 if long and is_list else 0.6):
                if mo.multiple:
                    n = rng.choice([1, 2, 3])
                    vals = [new_value(rng, mo, klass, long) for _ in range(n)]
                    lst = getattr(ex, mo.name)
                    del lst[:]
                    lst.extend(v for v in vals if not (v is None and mo.optional is True))
                else:
                    setattr(ex, mo.name, new_value(rng, mo, klass, long))
                changed.append(mo.name)
        else:
            if mo.multiple:
                for inst in (cur or []):
                    if inst is not None:
                        assign(rng, mo, inst, klass, changed, long)
            elif cur is not None:
                assign(rng, mo, cur, klass, changed, long)


def stretch_choices(rng, nodes):
    """choice parameters with many alternatives, some of which need quotes (`"rigid body"`): the alternatives no longer fit
    on one print line, and the written words are a mix of bare and quoted ones"""
    for nd in nodes:
        if nd["k"] == "s":
            stretch_choices(rng, nd["kids"])
        elif nd["type"] and nd["type"].startswith("choice") and rng.random() < 0.5:
            alts, seen = [], set()
            p_bare = rng.choice([0.3, 0.5, 0.8])
            for _ in range(rng.choice([8, 12, 18])):
                if rng.random() < p_bare:
                    a = rand_ident(rng)
                else:
                    a = rand_ident(rng)[:7] + rng.choice([" ", "-", "/", "(", ")", ":", ",", " "]) + rand_ident(rng)[:5]
                if a.lower() in seen or a.lower() in ("none", "auto"):
                    continue
                seen.add(a.lower())
                alts.append(a)
            star = {rng.randrange(len(alts))}
            if nd["type"] != "choice" and rng.random() < 0.5:
                star.add(rng.randrange(len(alts)))
            ws = []
            for i, a in enumerate(alts):
                a = ("*" if i in star else "") + a
                ws.append(a if _bare_ok(a) else '"%s"' % a)
            nd["default"] = " ".join(ws)


def _bare_ok(a):
    return all(c in IDENT_CHARS + "0123456789.*" for c in a)


def d6_active():
    """finding D6 is recorded under property C01 (print -> parse is not the identity when the printer breaks the line right
    after a quoted word that spans lines); it is the same defect as seen from C09, so failures on inputs of its class are
    covered by it as long as its own witness still fails on the tree under test"""
    import json
    import os
    here = os.path.dirname(os.path.dirname(os.path.dirname(os.path.abspath(__file__))))
    try:
        fs = [f for f in json.load(open(os.path.join(here, "known_findings.json")))
              if f.get("id") == "D6" and f.get("property") == "C01" and f.get("status") == "finding"]
    except Exception:
        return False
    if not fs:
        return False
    w = fs[0]["witness"]
    try:
        t = freephil.parse(input_string=w["text"]).as_str(print_width=w["width"])
        return freephil.parse(input_string=t).as_str(print_width=w["width"]) != t
    except RuntimeError:
        return True


def close(a, b):
    """dump equality with floats to 10 significant digits"""
    if isinstance(a, dict) and isinstance(b, dict):
        return a.keys() == b.keys() and all(close(a[k], b[k]) for k in a)
    if isinstance(a, list) and isinstance(b, list):
        if len(a) == 3 and len(b) == 3 and a[0] == "flt" and b[0] == "flt":
            x, y = a[1] / a[2], b[1] / b[2]
            return abs(x - y) <= 1e-9 * max(abs(x), abs(y))
        if a[:1] == ["flt"] and b[:1] == ["int"] or a[:1] == ["int"] and b[:1] == ["flt"]:
            x = a[1] / (a[2] if a[0] == "flt" else 1)
            y = b[1] / (b[2] if b[0] == "flt" else 1)
            return abs(x - y) <= 1e-9 * max(abs(x), abs(y))
        return len(a) == len(b) and all(close(x, y) for x, y in zip(a, b))
    return a == b


def to_pval(x):
    """PVal wire form of an extracted object"""
    if isinstance(x, freephil.scope_extract):
        return ["r", [[enc(k), to_pval(v)] for k, v in x.__dict__.items() if not (k.startswith("__") and k.endswith("__"))]]
    if isinstance(x, freephil.common.scope_extract_list):
        return ["m", [to_pval(v) for v in x]]
    if isinstance(x, list) and not (x and all(isinstance(w, tokenizer.word) for w in x)):
        return ["l", [to_pval(v) for v in x]]
    return pval_j(x)


def fmt_tables(x, out):
    if isinstance(x, freephil.scope_extract):
        for k, v in x.__dict__.items():
            if not (k.startswith("__") and k.endswith("__")):
                fmt_tables(v, out)
    elif isinstance(x, list):
        for v in x:
            fmt_tables(v, out)
    elif isinstance(x, (int, float)) and not isinstance(x, bool):
        j = num_j(x)
        try:
            out[repr(j)] = [j, enc("%.10g" % x)]
        except Exception:
            pass


def print_leg(m, formatted, want, width, values, seen):
    """printing the formatted tree at the given width, parsing it and fetching it again returns the values (values=False:
    only that the printed text reads back at all, for masters with multiple parameters, where instances may collapse)"""
    text = formatted.as_str() if width is None else formatted.as_str(print_width=width)
    seen["printed"] = text
    got2 = _fetch.dump(m.fetch(source=freephil.parse(input_string=text)).extract())
    if values and not close(got2, want):
        return "format -> print%s -> parse -> fetch -> extract returns different values" % (
            "" if width is None else "(print_width=%d)" % width)
    return None


def run(ctx):
    rng = ctx.rng
    n = ctx.scale(2500, 40000, 8000)
    cases, reqs, impls = [], [], []
    d6 = d6_active()
    for i in range(n):
        if ctx.time_left() < 30:
            ctx.notes.append("stopped early on time budget")
            break
        multiples = i % 3 != 0
        long = i % 5 in (1, 2)          # values longer than a print line
        tree = mgen.MasterGen(rng, depth=rng.choice([0, 1, 2]), multiples=multiples, nested_multiples=False,
                              disabled=False, further=False).tree()
        if long:
            stretch_choices(rng, tree)
        mt = mgen.render_master(tree)
        srcs = [mgen.SourceGen(rng, valid_only=True, unknown=False, disabled=False).text(tree)] if multiples else []
        m = freephil.parse(input_string=mt)
        try:
            params = m.fetch(sources=[freephil.parse(input_string=s) for s in srcs]).extract()
        except BaseException:
            continue
        klass, changed = [], []
        assign(rng, m, params, klass, changed, long)
        ctx.case((mt, repr(_fetch.dump(params))), nontrivial=bool(changed))
        if long:
            ctx.count("long_values")
        for c in set(klass):
            ctx.count("class_" + c)
        want = _fetch.dump(params)
        f = None
        leg = "format"
        width = None
        seen = {}
        try:
            formatted = m.format(python_object=params)
            got = _fetch.dump(formatted.extract())
            if not close(got, want):
                f = "format -> extract returns different values"
            else:
                # the print leg: at the default width, and at a narrower one (line breaks at other places of the same value)
                leg = "print"
                f = print_leg(m, formatted, want, None, not multiples, seen)
                if f is None and i % 2 == 0:
                    width = rng.choice([20, 30, 45, 60])
                    f = print_leg(m, formatted, want, width, not multiples, seen)
        except BaseException as e:
            f = "round trip raised %s: %s" % (type(e).__name__, str(e)[:120])
            if leg == "print":
                f += " (print leg%s)" % ("" if width is None else ", print_width=%d" % width)
        case = {"master": mt, "values": repr(want)[:3000]}
        if f:
            if leg == "print" and "printed" in seen:
                case["printed"] = seen["printed"][:3000]
            cls = set(klass)
            if leg == "format":
                cls.discard("D15")      # an empty list has no SPELLING (the print/parse leg); format -> extract must keep it
                cls.discard("D6")       # the line-break defect is one of the printed text only
            if "D6" in cls and d6 and leg == "print" and f.startswith("round trip raised RuntimeError") \
                    and cls.isdisjoint(("D15", "D16", "D18")):
                # the printed text does not parse, on an input of the class of finding D6, which is recorded under C01 (the
                # runner only knows this property's findings) and whose witness still fails on this tree
                ctx.count("print_leg_failures_covered_by_C01_D6")
            else:
                ctx.fail(case, f, finding=sorted(cls), model_violates=None)
        # correspondence of format
        ev, fm0 = mgen.tables([mt])
        fm = {}
        fmt_tables(params, fm)
        ia = call_j(lambda: m.format(python_object=params), lambda r: obj_j(r, with_ids=True, with_lines=True))
        reqs.append(["format", enc(mt), to_pval(params), ev, fm0 + list(fm.values())])
        impls.append(ia)
        cases.append(case)
        if i % 200 == 0:
            ctx.sample(case)
    # refusals: out-of-domain values must raise instead of writing text
    for t, bad in [("int(value_min=0)", -1), ("ints(size=2)", [1]), ("ints(value_max=3)", [1, 9]), ("choice", "zz"),
                   ("int(allow_none=False)", None), ("floats(size_max=1)", [1.0, 2.0]), ("choice(multi=True)", ["a", "zz"])]:
        dflt = "a *b c" if t.startswith("choice") else ("1 2" if t.startswith("ints(size=2") else "1")
        m = freephil.parse(input_string="v = %s\n  .type = %s\n" % (dflt, t))
        p = m.extract()
        p.v = bad
        ctx.case(("refuse", t, repr(bad)))
        try:
            text = m.format(python_object=p).as_str()
            ctx.fail({"type": t, "value": repr(bad)}, "out-of-domain value was written as %r instead of being refused" % text)
        except RuntimeError:
            pass
        except BaseException as e:
            ctx.fail({"type": t, "value": repr(bad)}, "refusal raised %s" % type(e).__name__)
    if reqs and ctx.mode != "impl-only":
        ctx.corr("format", cases, reqs, impls)


def finding_still_fails(f):
    w = f["witness"]
    m = freephil.parse(input_string=w["master"])
    p = m.extract()
    p.v = eval(w["value"], {"Auto": freephil.Auto})
    try:
        back = m.fetch(source=freephil.parse(input_string=m.format(python_object=p).as_str())).extract().v
    except BaseException:
        return True
    return back != p.v


def replay(payload):
    print(payload["failure"])
    return False
