"""C09 — Python objects written back to PHIL and read again are unchanged."""
import copy
import math

import mgen
from common import freephil, enc, obj_j, call_j, AutoT, tokenizer
from props import _fetch
from values import pval_j, num_j

LEVEL = "proof"
MODULE = "Phil.Props.C09"
LEVEL_TEXT = ("Lean theorems about the converter model: fromWords (asWords v) = v for every built-in type on its domain "
              "(bool, int with exact decimal rendering, str/path/key character for character via the quoting theorem C03, "
              "strings, ints, choice single/multi, None, Auto), asWords refuses values that break bounds, sizes, alternatives or "
              "None rules. float text is CPython's ('%.10g', eval): the law is a hypothesis there and the harness supplies the "
              "renderings. The model (as_words per type, scope.format, extract) is tied to /repo by a correspondence run of "
              "format on generated in-domain values; the oracle checks format->extract equality, the print/parse/fetch/extract "
              "leg, and refusal of out-of-domain values, on the implementation.")
LEVEL_NOTE = ("Known findings (excluded from the in-domain stream, visited in their own): D15 empty list, D16 one-element "
              "[None]/[Auto] lists, D18 path starting with '~'. Floats compared to 10 significant digits.")
TECHNIQUE = "Lean 4 round-trip theorems per converter + differential correspondence of format + round-trip oracle"
RULE = ("masters (all built-in types, multiples, nested scopes) x in-domain Python values per type (strings over quotes, "
        "backslashes, newlines, unicode; ints of any magnitude; floats incl. inf, tiny and huge; lists within bounds; choices; "
        "None/Auto) assigned to an extracted object; non-trivial = at least one value differs from the default")
ASSUMPTIONS = ["values are assigned through the public scope_extract attributes"]

CHARS = ["a", "b", " ", "'", '"', "\\", "\n", "#", "{", "}", ";", "=", "é", "\t", "*", "+", "None", "x y", "~"]


def rand_str(rng, no_dollar=True):
    return "".join(rng.choice(CHARS) for _ in range(rng.choice([0, 1, 2, 3, 6, 12])))


def rand_float(rng):
    return rng.choice([0.0, 1.5, -2.25, 1e-300, 1e300, 3.14159265358979, 1 / 3.0, 2.0 ** 60, -1e-5, 123456789.125,
                       float("inf"), float("-inf"), 0.1, 1e22, 5e-324])


def rand_int(rng):
    return rng.choice([0, 1, -1, 7, 10, 255, -300, 10 ** 12, 10 ** 25, -(10 ** 20), 2 ** 53 + 1])


def new_value(rng, mo, klass):
    """an in-domain Python value for master definition mo; appends finding classes met to klass"""
    t = mo.type
    pt = None if t is None else t.phil_type
    k = rng.random()
    allow_none = getattr(t, "allow_none", True)
    if k < 0.07 and allow_none and not (pt == "choice" and mo.optional is False) and not (pt == "choice" and t.multi):
        return None
    if k < 0.12 and pt not in ("words",):
        return freephil.Auto
    if pt in ("str", "key"):
        return rand_str(rng)
    if pt == "path":
        s = rand_str(rng)
        if s.startswith("~"):
            klass.append("D18")
        return s
    if pt == "qstr":
        return rng.choice(["a", "'p q' r", '"x\\"y" z', "a  b".replace("  ", " "), "1 2 3"])
    if pt == "bool":
        return rng.choice([True, False])
    if pt in ("int", "float"):
        lo, hi = t.value_min, t.value_max
        for _ in range(20):
            v = rand_int(rng) if pt == "int" else rand_float(rng)
            if (lo is None or v >= lo) and (hi is None or v <= hi):
                return v
        return lo if lo is not None else hi
    if pt in ("ints", "floats"):
        smin = t.size_min or 0
        smax = t.size_max if t.size_max is not None else smin + 3
        n = rng.randint(smin, max(smin, smax))
        if n == 0:
            klass.append("D15")
        out = []
        for _ in range(n):
            r = rng.random()
            if r < 0.1 and t.allow_none_elements:
                out.append(None)
            elif r < 0.2 and t.allow_auto_elements:
                out.append(freephil.Auto)
            else:
                for _ in range(20):
                    v = rand_int(rng) if pt == "ints" else rand_float(rng)
                    if (t.value_min is None or v >= t.value_min) and (t.value_max is None or v <= t.value_max):
                        break
                else:
                    v = t.value_min
                out.append(v)
        if len(out) == 1 and (out[0] is None or isinstance(out[0], AutoT)):
            klass.append("D16")
        return out
    if pt == "choice":
        alts = [w.value.lstrip("*") for w in mo.words]
        if t.multi:
            sel = [a for a in alts if rng.random() < 0.5]
            if not sel and mo.optional is False:
                sel = alts[:1]
            return sel
        return rng.choice(alts)
    if pt == "strings" or t is None:
        n = rng.choice([1, 1, 2, 3])
        # incl. elements that spell None/Auto in any letter case (the readers take a lone unquoted one as the atom)
        out = [rng.choice(["none", "NONE", "auto", "AUTO", "nOnE", "None", "Auto", "nonesuch", "automatic"])
               if rng.random() < 0.2 else rand_str(rng) for _ in range(n)]
        return out
    if pt == "words":
        out = []
        for _ in range(rng.choice([1, 2])):
            q = rng.choice([None, '"', "'"])
            v = rand_str(rng).replace("\n", " ") if q else rng.choice(["w", "a.b", "x-1", "p/q", "1.5"])
            out.append(tokenizer.word(value=v, quote_token=q))
        return out
    return None


def assign(rng, ms, ex, klass, changed):
    """walk master scope ms and extracted object ex, assigning new in-domain values"""
    seen = set()
    for mo in ms.objects:
        if mo.is_disabled or mo.name in seen:
            continue
        seen.add(mo.name)
        cur = getattr(ex, mo.name, None)
        if mo.is_definition:
            if rng.random() < 0.6:
                if mo.multiple:
                    n = rng.choice([1, 2, 3])
                    vals = [new_value(rng, mo, klass) for _ in range(n)]
                    lst = getattr(ex, mo.name)
                    del lst[:]
                    lst.extend(v for v in vals if not (v is None and mo.optional is True))
                else:
                    setattr(ex, mo.name, new_value(rng, mo, klass))
                changed.append(mo.name)
        else:
            if mo.multiple:
                for inst in (cur or []):
                    if inst is not None:
                        assign(rng, mo, inst, klass, changed)
            elif cur is not None:
                assign(rng, mo, cur, klass, changed)


def close(a, b):
    """dump equality with floats to 10 significant digits"""
    if isinstance(a, dict) and isinstance(b, dict):
        return a.keys() == b.keys() and all(close(a[k], b[k]) for k in a)
    if isinstance(a, list) and isinstance(b, list):
        if len(a) == 3 and len(b) == 3 and a[0] == "flt" and b[0] == "flt":
            x, y = a[1] / a[2], b[1] / b[2]
            return abs(x - y) <= 1e-9 * max(abs(x), abs(y))
        if a[:1] == ["flt"] and b[:1] == ["int"] or a[:1] == ["int"] and b[:1] == ["flt"]:
            x = a[1] / (a[2] if a[0] == "flt" else 1)
            y = b[1] / (b[2] if b[0] == "flt" else 1)
            return abs(x - y) <= 1e-9 * max(abs(x), abs(y))
        return len(a) == len(b) and all(close(x, y) for x, y in zip(a, b))
    return a == b


def to_pval(x):
    """PVal wire form of an extracted object"""
    if isinstance(x, freephil.scope_extract):
        return ["r", [[enc(k), to_pval(v)] for k, v in x.__dict__.items() if not (k.startswith("__") and k.endswith("__"))]]
    if isinstance(x, freephil.common.scope_extract_list):
        return ["m", [to_pval(v) for v in x]]
    if isinstance(x, list) and not (x and all(isinstance(w, tokenizer.word) for w in x)):
        return ["l", [to_pval(v) for v in x]]
    return pval_j(x)


def fmt_tables(x, out):
    if isinstance(x, freephil.scope_extract):
        for k, v in x.__dict__.items():
            if not (k.startswith("__") and k.endswith("__")):
                fmt_tables(v, out)
    elif isinstance(x, list):
        for v in x:
            fmt_tables(v, out)
    elif isinstance(x, (int, float)) and not isinstance(x, bool):
        j = num_j(x)
        try:
            out[repr(j)] = [j, enc("%.10g" % x)]
        except Exception:
            pass


def run(ctx):
    rng = ctx.rng
    n = ctx.scale(2500, 40000, 8000)
    cases, reqs, impls = [], [], []
    for i in range(n):
        if ctx.time_left() < 30:
            ctx.notes.append("stopped early on time budget")
            break
        multiples = i % 3 != 0
        tree = mgen.MasterGen(rng, depth=rng.choice([0, 1, 2]), multiples=multiples, nested_multiples=False,
                              disabled=False, further=False).tree()
        mt = mgen.render_master(tree)
        srcs = [mgen.SourceGen(rng, valid_only=True, unknown=False, disabled=False).text(tree)] if multiples else []
        m = freephil.parse(input_string=mt)
        try:
            params = m.fetch(sources=[freephil.parse(input_string=s) for s in srcs]).extract()
        except BaseException:
            continue
        klass, changed = [], []
        assign(rng, m, params, klass, changed)
        ctx.case((mt, repr(_fetch.dump(params))), nontrivial=bool(changed))
        for c in set(klass):
            ctx.count("class_" + c)
        want = _fetch.dump(params)
        f = None
        try:
            formatted = m.format(python_object=params)
            got = _fetch.dump(formatted.extract())
            if not close(got, want):
                f = "format -> extract returns different values"
            elif not multiples:
                text = formatted.as_str()
                got2 = _fetch.dump(m.fetch(source=freephil.parse(input_string=text)).extract())
                if not close(got2, want):
                    f = "format -> print -> parse -> fetch -> extract returns different values"
        except BaseException as e:
            f = "round trip raised %s: %s" % (type(e).__name__, str(e)[:120])
        case = {"master": mt, "values": repr(want)[:3000]}
        if f:
            cls = set(klass)
            if f.startswith("format -> extract"):
                cls.discard("D15")      # an empty list has no SPELLING (the print/parse leg); format -> extract must keep it
            ctx.fail(case, f, finding=sorted(cls), model_violates=None)
        # correspondence of format
        ev, fm0 = mgen.tables([mt])
        fm = {}
        fmt_tables(params, fm)
        ia = call_j(lambda: m.format(python_object=params), lambda r: obj_j(r, with_ids=True, with_lines=True))
        reqs.append(["format", enc(mt), to_pval(params), ev, fm0 + list(fm.values())])
        impls.append(ia)
        cases.append(case)
        if i % 200 == 0:
            ctx.sample(case)
    # refusals: out-of-domain values must raise instead of writing text
    for t, bad in [("int(value_min=0)", -1), ("ints(size=2)", [1]), ("ints(value_max=3)", [1, 9]), ("choice", "zz"),
                   ("int(allow_none=False)", None), ("floats(size_max=1)", [1.0, 2.0]), ("choice(multi=True)", ["a", "zz"])]:
        dflt = "a *b c" if t.startswith("choice") else ("1 2" if t.startswith("ints(size=2") else "1")
        m = freephil.parse(input_string="v = %s\n  .type = %s\n" % (dflt, t))
        p = m.extract()
        p.v = bad
        ctx.case(("refuse", t, repr(bad)))
        try:
            text = m.format(python_object=p).as_str()
            ctx.fail({"type": t, "value": repr(bad)}, "out-of-domain value was written as %r instead of being refused" % text)
        except RuntimeError:
            pass
        except BaseException as e:
            ctx.fail({"type": t, "value": repr(bad)}, "refusal raised %s" % type(e).__name__)
    if reqs and ctx.mode != "impl-only":
        ctx.corr("format", cases, reqs, impls)


def finding_still_fails(f):
    w = f["witness"]
    m = freephil.parse(input_string=w["master"])
    p = m.extract()
    p.v = eval(w["value"], {"Auto": freephil.Auto})
    try:
        back = m.fetch(source=freephil.parse(input_string=m.format(python_object=p).as_str())).extract().v
    except BaseException:
        return True
    return back != p.v


def replay(payload):
    print(payload["failure"])
    return False
