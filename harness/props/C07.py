"""C07 — fetching is idempotent and insensitive to complete copies of the master."""
import random

from common import freephil, enc
from props import _fetch

LEVEL = "proof"
MODULE = "Phil.Props.C07"
LEVEL_TEXT = 'Lean theorems about the merge model: re-fetching a fetch result gives the result, and the master as an extra source changes nothing — closed on flat masters (refetch_idempotent), nested masters (tree_refetch_idempotent), with .multiple definitions (tree_multi_refetch_idempotent) and with .multiple scopes nested to any depth (ms_refetch_idempotent, fetchRoot_ms_idempotent, master_as_source, ms_fetch_master_itself), also with further master occurrences (ms2_refetch_idempotent, ms2_fetch_master_itself), with no canonical-rendering hypothesis; what printing a fetch result and re-parsing gives (fetch_result_reparsed); on masters with choices under the decidable ChoiceRefetchOK (tree_choice_refetch_idempotent, tree_choice_fetch_master_itself), each clause sharp. Tied to /repo by a correspondence run on fetch chains; the oracle evaluates every equality of the statement on the implementation (re-fetch as object, re-fetch from printed text also with annotations, master as extra source, no source vs master as source; 1-3 cycles; values with lexical escapes).'
LEVEL_NOTE = 'Closed forms for variable-free sources; masters with $variables in defaults are by design outside (variables resolve in sources). Findings: D81 (a deprecated choice set by a source is dropped by a re-fetch); a single unstarred alternative is starred by a re-fetch by design (the star is optional for one value).'
TECHNIQUE = 'Lean 4 idempotence theorems (closed form incl. .multiple scopes) + differential correspondence + equality oracle on fetch chains'
RULE = ("masters (incl. multiples nested in multiple scopes, non-canonical defaults such as 'yes' for a bool or unquoted strings) x "
        "source lists x 1-3 fetch/print/parse cycles; non-trivial = the result differs from the bare master fetch")
ASSUMPTIONS = ["equality = identical print at attributes_level=2 and equal extract() dumps"]


def same(a, b):
    if a.as_str(attributes_level=2) != b.as_str(attributes_level=2):
        return "printed forms differ"
    try:
        da, db = _fetch.dump(a.extract()), _fetch.dump(b.extract())
    except BaseException as e:
        return None
    if da != db:
        return "extracted values differ"
    return None


def lone_backslash_last(o):
    """some definition's last word is a quoted word that is exactly one backslash"""
    for c in o.objects:
        if c.is_definition:
            if c.words and c.words[-1].quote_token is not None and c.words[-1].value == "\\":
                return True
        elif lone_backslash_last(c):
            return True
    return False


def check(m, ss):
    """None or (description); raises nothing"""
    try:
        w = m.fetch(sources=ss)
    except BaseException:
        return None
    try:
        r = same(m.fetch(source=w), w)
        if r:
            return "M.fetch(W) != W: " + r
        w2 = w
        for k in range(3):
            w2 = m.fetch(source=freephil.parse(input_string=w2.as_str()))
            r = same(w2, w)
            if r:
                return "cycle %d of print/parse/fetch != W: %s" % (k + 1, r)
        # "its printed text" at every level of detail the printer offers (a parameter file saved with its annotations)
        for lvl in (1, 2):
            r = same(m.fetch(source=freephil.parse(input_string=w.as_str(attributes_level=lvl))), w)
            if r:
                return "print(attributes_level=%d)/parse/fetch != W: %s" % (lvl, r)
        r = same(m.fetch(sources=[m] + ss), w)
        if r:
            return "M.fetch([M]+S) != W: " + r
        r = same(m.fetch(sources=[m.fetch()] + ss), w)
        if r:
            return "M.fetch([M's defaults]+S) != W: " + r
        r = same(m.fetch(), m.fetch(source=m))
        if r:
            return "M.fetch() != M.fetch(M): " + r
    except BaseException as e:
        return "re-fetch raised %s: %s" % (type(e).__name__, str(e)[:120])
    return None


def run(ctx):
    rng = ctx.rng
    n = ctx.scale(1500, 30000, 6000)
    cases, reqs, impls = [], [], []
    # every fourth case belongs to a second stream (own generator state, so the first stream is the same with and without it):
    # the same masters / sources with a share of the text-typed values written with lexical escapes (backslashes and escaped
    # quotes inside quoted words of every quote style, a quoted word that is exactly one backslash, continuation lines) --
    # values whose printed text has to be escaped correctly for "W re-parsed from its printed text" to give W
    rng_esc = random.Random(ctx.seed * 7919 + 4242)
    done = {False: 0, True: 0}
    for i in range(n + n // 3):
        if ctx.time_left() < 30:
            ctx.notes.append("stopped early on time budget")
            break
        esc = i % 4 == 3
        nested = done[esc] % 3 == 2
        done[esc] += 1
        tree, mt, srcs = _fetch.gen(rng_esc if esc else rng, nested=nested, escapes=0.5 if esc else 0)
        try:
            m = freephil.parse(input_string=mt)
            ss = [freephil.parse(input_string=s) for s in srcs]
        except BaseException as e:
            # every generated text is well-formed; a tree that rejects one cannot be examined for C07 on that input (counted,
            # visible in the evidence; parsing itself is C01 / C16)
            ctx.count("rejected_by_parse")
            continue
        ctx.case((mt, tuple(srcs)), nontrivial=bool(srcs))
        isnested = _fetch.has_nested_multiple(tree)
        ctx.count("nested_multiples" if isnested else "plain")
        if esc:
            ctx.count("escapes_stream")
            if any(lone_backslash_last(s) for s in ss + [m]):
                ctx.count("escapes_stream_quoted_backslash_ends_value")
        f = check(m, ss)
        case = {"master": mt, "sources": srcs}
        # correspondence on the second-generation fetch: sources = [printed W]
        try:
            wtxt = m.fetch(sources=ss).as_str()
            ss2 = [freephil.parse(input_string=wtxt)]
            ia = _fetch.fetch_impl(m, ss2)
            reqs.append(_fetch.fetch_req(mt, [wtxt]))
            impls.append(ia)
            cases.append((case, None, None))
        except BaseException:
            pass
        if f:
            ctx.fail(case, f, finding="D8" if isnested else None, model_violates=None)
        if i % 100 == 0:
            ctx.sample({"master": mt, "sources": srcs})
    if reqs and ctx.mode != "impl-only":
        ctx.corr("fetch", [c[0] for c in cases], reqs, impls)


def _fails_as(mt, srcs, head):
    try:
        m = freephil.parse(input_string=mt)
        ss = [freephil.parse(input_string=x) for x in srcs]
    except BaseException:
        return False
    r = check(m, ss)
    return r is not None and r.split(":")[0] == head


def _less_lines(text, keep):
    """greedy removal of runs of lines (8, 4, 2, 1) while keep(text) stays true"""
    lines = text.splitlines(True)
    for size in (8, 4, 2, 1):
        i = 0
        while i < len(lines):
            cand = lines[:i] + lines[i + size:]
            if len(cand) < len(lines) and keep("".join(cand)):
                lines = cand
            else:
                i += 1
    return "".join(lines)


def shrink(f):
    """a smaller input failing the same clause: fewer sources, fewer source lines, fewer master lines (every candidate is
    re-parsed and re-checked on the implementation, so the result is a genuine failing input or the original)"""
    import time
    t_end = time.time() + 10
    mt, srcs = f["case"]["master"], list(f["case"]["sources"])
    head = f["what"].split(":")[0]
    if not _fails_as(mt, srcs, head):
        return f

    def ok(m_, s_):
        return time.time() < t_end and _fails_as(m_, s_, head)
    i = 0
    while i < len(srcs):
        if ok(mt, srcs[:i] + srcs[i + 1:]):
            srcs = srcs[:i] + srcs[i + 1:]
        else:
            i += 1
    for i in range(len(srcs)):
        srcs[i] = _less_lines(srcs[i], lambda t: ok(mt, srcs[:i] + [t] + srcs[i + 1:]))
    mt = _less_lines(mt, lambda t: ok(t, srcs))
    g = dict(f)
    g["case"] = {"master": mt, "sources": srcs}
    g["what"] = f["what"] + " [input shrunk; generated input in 'original_case']"
    g["original_case"] = f["case"]
    return g


def finding_still_fails(f):
    w = f["witness"]
    m = freephil.parse(input_string=w["master"])
    return check(m, [freephil.parse(input_string=s) for s in w["sources"]]) is not None


def replay(payload):
    c = payload["failure"]["case"]
    m = freephil.parse(input_string=c["master"])
    r = check(m, [freephil.parse(input_string=s) for s in c["sources"]])
    print(r)
    return r is None
