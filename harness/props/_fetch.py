"""shared pieces of the merge properties C04-C08 (and C09, C17, C18, C20)"""
import mgen
from common import freephil, enc, obj_j, call_j, line_of, attr_j, AutoT, tokenizer
from values import pval_j


def gen(rng, nested=False, n_sources=None, variables=False, escapes=0, lists=0, **kw):
    """escapes: share of the text-typed defaults / source values written with lexical escapes (mgen.ESC_WORDS);
    lists: share of the ints / floats defaults and source values drawn from mgen.LIST_SPELLINGS (brackets, commas, quotes,
    the empty list)"""
    if escapes:
        kw["escapes"] = escapes
    if lists:
        kw["lists"] = lists
    tree = mgen.MasterGen(rng, depth=rng.choice([0, 1, 1, 2, 3]), nested_multiples=nested, **kw).tree()
    mt = mgen.render_master(tree)
    k = n_sources if n_sources is not None else rng.choice([0, 1, 1, 2, 3])
    srcs = [mgen.SourceGen(rng, variables=variables, escapes=escapes, lists=lists).text(tree) for _ in range(k)]
    return tree, mt, srcs


ENV_CHOICES = (("PHILENV_A", "7"), ("PHILENV_B", "x y"))


def gen_env(rng):
    return {k: v for k, v in ENV_CHOICES if rng.random() < 0.6}


class env_as:
    """install a table as os.environ while calling the implementation"""

    def __init__(self, table):
        self.table = dict(table)

    def __enter__(self):
        import os
        self.saved = os.environ
        os.environ = self.table
        return self

    def __exit__(self, *a):
        import os
        os.environ = self.saved


def has_nested_multiple(nodes, inside=False):
    for n in nodes:
        if n["dis"]:
            continue
        if n["multiple"] and inside:
            return True
        if n["k"] == "s" and has_nested_multiple(n["kids"], inside or n["multiple"]):
            return True
    return False


def fetch_req(mt, srcs, diff=False, env=None):
    """env: the os.environ table for $variables (None = variable-free request)"""
    extra = [] if not env else ["zz_env_%d = %s\n" % (i, v) for i, v in enumerate(env.values()) if v.strip()]
    if env is not None:
        # value texts that exist only after substitution (`pre$v1`) need their eval answers too
        try:
            with env_as(env):
                extra.append(freephil.parse(input_string=mt).fetch(
                    sources=[freephil.parse(input_string=s) for s in srcs], diff=diff).as_str())
        except BaseException:
            pass
    ev, fm = mgen.tables([mt] + srcs + extra)
    req = ["fetch", enc(mt), [enc(s) for s in srcs], diff, ev, fm]
    if env is not None:
        req.append([[enc(k), enc(v)] for k, v in env.items()])
    return req


def to_pval(x):
    """PVal wire form of an extracted object"""
    if isinstance(x, freephil.scope_extract):
        return ["r", [[enc(k), to_pval(v)] for k, v in x.__dict__.items() if not (k.startswith("__") and k.endswith("__"))]]
    if isinstance(x, freephil.common.scope_extract_list):
        return ["m", [to_pval(v) for v in x]]
    if isinstance(x, list) and not (x and all(isinstance(w, tokenizer.word) for w in x)):
        return ["l", [to_pval(v) for v in x]]
    return pval_j(x)


def fetch_impl(m, ss, diff=False):
    def f():
        r, un = m.fetch(sources=ss, track_unused_definitions=True, diff=diff)
        ex = None if diff else call_j(lambda: r.extract(), to_pval)
        return [obj_j(r), [[enc(u.path), line_of(str(u))] for u in un], ex]
    return call_j(f)


def dump(x):
    """nested, comparable form of an extracted Python object"""
    if isinstance(x, freephil.scope_extract):
        return {k: dump(v) for k, v in x.__dict__.items() if not (k.startswith("__") and k.endswith("__"))}
    if isinstance(x, list) and x and all(isinstance(w, tokenizer.word) for w in x):
        return ["w", [[enc(w.value), w.quote_token] for w in x]]
    if isinstance(x, list):
        return [dump(v) for v in x]
    return pval_j(x)


def active_params(o, out=None, prefix=""):
    """paths of the active master definitions (first occurrences)"""
    out = [] if out is None else out
    seen = set()
    for c in o.objects:
        if c.is_disabled or c.name in seen:
            continue
        seen.add(c.name)
        if c.is_definition:
            out.append(prefix + c.name)
        else:
            active_params(c, out, prefix + c.name + ".")
    return out


def has_nested_further(nodes, inside=False):
    """a .multiple object with a further (or commented-out) master occurrence inside a .multiple scope (finding class D9)"""
    for n in nodes:
        if n["dis"]:
            continue
        if n["multiple"] and inside and (n.get("further") or n.get("dis_further")):
            return True
        if n["k"] == "s" and has_nested_further(n["kids"], inside or n["multiple"]):
            return True
    return False
