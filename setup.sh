#!/bin/sh
# MANIFEST.setup_cmd: build the Lean library (model + all property theorems) and the driver, offline.
set -e
D="$(cd "$(dirname "$0")" && pwd)"
cd "$D/lean"
lake build Phil drv
ls Phil/Props/*.lean | sed 's#/#.#g; s#\.lean$##' | xargs lake build
